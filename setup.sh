#!/bin/sh
# Run once in /verif after a fresh restore, offline: builds the framework from files on disk.
V="$(cd "$(dirname "$0")" && pwd)"
export CARGO_NET_OFFLINE=true
case " $RUSTFLAGS " in
  *" --cfg rngs_verif "*) ;;
  *) RUSTFLAGS="${RUSTFLAGS:+$RUSTFLAGS }--cfg rngs_verif"; export RUSTFLAGS ;;
esac
mkdir -p "$V/out" "$V/evidence"
cd "$V/harness" && cargo build --bin vcheck 2>&1 | tail -3
