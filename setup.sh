#!/bin/sh
# Run once in /verif after a fresh restore, offline: builds the framework from files on disk.
V="$(cd "$(dirname "$0")" && pwd)"
export CARGO_NET_OFFLINE=true
case " $RUSTFLAGS " in
  *" --cfg rngs_verif "*) ;;
  *) RUSTFLAGS="${RUSTFLAGS:+$RUSTFLAGS }--cfg rngs_verif"; export RUSTFLAGS ;;
esac
mkdir -p "$V/out" "$V/evidence"
(cd "$V/harness" && cargo build --bin vcheck 2>&1 | tail -2) || exit 1
# C18 build configurations (quick tier corners) and the C19 probe, so that the first check run is warm
(cd "$V/harness/vdigest" && cargo build --profile o0c --features serde --target-dir target-s1 2>&1 | tail -1 \
  && cargo build --profile o3c --features serde --target-dir target-s1 2>&1 | tail -1 \
  && cargo build --profile o3n --target-dir target-s0 2>&1 | tail -1 \
  && cargo build --profile o0n --target-dir target-s0 2>&1 | tail -1) || exit 1
(cd "$V/harness/sendsync_probe" && cargo check 2>&1 | tail -1) || exit 1
echo "setup done"
