use rand_core::{RngCore, SeedableRng};
use rand_jitter::JitterRng;
use std::sync::atomic::{AtomicUsize, Ordering};
use std::sync::Arc;
fn sm(x:&mut u64)->u64{*x=x.wrapping_add(0x9e3779b97f4a7c15);let mut z=*x;z=(z^(z>>30)).wrapping_mul(0xbf58476d1ce4e5b9);z=(z^(z>>27)).wrapping_mul(0x94d049bb133111eb);z^(z>>31)}
fn main(){
    let mut x=12345u64;
    let mut out=Vec::new();
    for case in 0..40 {
        let mut seed=[0u8;32];
        for b in seed.iter_mut(){*b=(sm(&mut x)>>56) as u8;}
        if case%5==0 { for b in seed.iter_mut().skip(3){*b=0;} }
        let n=if case%4==0 {2200} else {300};
        let mut h=rand_hc::Hc128Rng::from_seed(seed);
        let hv:Vec<u32>=(0..n).map(|_|h.next_u32()).collect();
        let mut i=rand_isaac::IsaacRng::from_seed(seed);
        let iv:Vec<u32>=(0..n.min(700)).map(|_|i.next_u32()).collect();
        let mut j=rand_isaac::Isaac64Rng::from_seed(seed);
        let jv:Vec<u64>=(0..n.min(700)).map(|_|j.next_u64()).collect();
        let u=sm(&mut x);
        let mut i1=rand_isaac::IsaacRng::seed_from_u64(u);
        let i1v:Vec<u32>=(0..300).map(|_|i1.next_u32()).collect();
        let mut j1=rand_isaac::Isaac64Rng::seed_from_u64(u);
        let j1v:Vec<u64>=(0..300).map(|_|j1.next_u64()).collect();
        out.push(serde_json::json!({"seed":seed.to_vec(),"hc":hv,"isaac":iv,"isaac64":jv.iter().map(|v|v.to_string()).collect::<Vec<_>>(),"u":u.to_string(),"isaac_u":i1v,"isaac64_u":j1v.iter().map(|v|v.to_string()).collect::<Vec<_>>()}));
    }
    // jitter: scripted timers with small deltas (no overflow)
    let mut jit=Vec::new();
    for case in 0..30u64 {
        let mut script=Vec::new(); let mut t=sm(&mut x)>>8;
        for k in 0..4000u64 { let r=sm(&mut x); let d= match (r>>60)%8 {0=>0,1=>7,2=>((r>>8)%5),_=>(r>>8)%1000}; t=t.wrapping_add(d); if case%3==0 && k%50==0 {t=t.wrapping_sub(300);} script.push(t); }
        let pos=Arc::new(AtomicUsize::new(0)); let p2=pos.clone(); let s=Arc::new(script.clone());
        let timer=move||{let i=p2.fetch_add(1,Ordering::Relaxed); s[i]};
        let mut rng=JitterRng::new_with_timer(timer);
        let rounds=(1+case%5) as u8; rng.set_rounds(rounds);
        let mut outs=Vec::new();
        outs.push(rng.next_u64().to_string()); outs.push((rng.next_u32() as u64).to_string()); outs.push((rng.next_u32() as u64).to_string()); outs.push(rng.next_u64().to_string());
        jit.push(serde_json::json!({"script":script.iter().map(|v|v.to_string()).collect::<Vec<_>>(),"rounds":rounds,"outs":outs,"reads":pos.load(Ordering::Relaxed)}));
    }
    println!("{}",serde_json::json!({"cases":out,"jit":jit}));
}
