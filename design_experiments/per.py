import sys
from sympy import isprime
F=[3,5,17,257,65537,(641,6700417),(274177,67280421310721),(59649589127497217,5704689200685129054721),(1238926361552897,93461639715357977769163558199606896584051237541638188580280321)]
primes=[]
for k,f in enumerate(F):
    fs=f if isinstance(f,tuple) else (f,)
    p=1
    for q in fs:
        assert isprime(q),q
        p*=q
    assert p==2**(2**k)+1,(k)
    primes.append(list(fs))
def prime_factors(n):  # of 2^n-1, n power of two
    out=[]; k=0
    while 2**k<n: out+=primes[k]; k+=1
    return out
for n in (64,128,256,512):
    pf=prime_factors(n); prod=1
    for p in pf: prod*=p
    assert prod==2**n-1; print(n,len(pf),"primes, squarefree OK")

M64=(1<<64)-1
def rotl(x,k,w=64): m=(1<<w)-1; return ((x<<k)|(x>>(w-k)))&m
def step256(s):
    s=list(s); t=(s[1]<<17)&M64
    s[2]^=s[0]; s[3]^=s[1]; s[1]^=s[2]; s[0]^=s[3]; s[2]^=t; s[3]=rotl(s[3],45); return s
def pack(s,w=64):
    v=0
    for i,x in enumerate(s): v|=x<<(w*i)
    return v
def unpack(v,n,w=64): return [(v>>(w*i))&((1<<w)-1) for i in range(n)]
# Berlekamp-Massey over GF(2) on bit sequence
def bm(bits):
    n=len(bits); c=1; b=1; L=0; m=-1
    for i in range(n):
        d=bits[i]
        # d ^= sum c_j * s_{i-j}
        cc=c>>1; j=1
        while cc:
            if cc&1: d^=bits[i-j]
            cc>>=1; j+=1
        if d:
            t=c
            c^=b<<(i-m)
            if 2*L<=i: L=i+1-L; m=i; b=t
    return c,L
def polymulmod(a,b,m,deg):
    r=0
    while b:
        if b&1: r^=a
        b>>=1; a<<=1
        if (a>>deg)&1: a^=m
    return r
def polypow(e,m,deg):
    r=1; x=2
    while e:
        if e&1: r=polymulmod(r,x,m,deg)
        x=polymulmod(x,x,m,deg); e>>=1
    return r
import random
random.seed(7)
s=[random.getrandbits(64) for _ in range(4)]
bits=[]
for i in range(2*256+8):
    bits.append(s[0]&1); s=step256(s)
c,L=bm(bits); print("L",L, "deg", c.bit_length()-1)
# c is connection polynomial C(x)=1+c1 x+...; characteristic poly = reverse
deg=L
rev=0
for i in range(deg+1):
    if (c>>i)&1: rev|=1<<(deg-i)
n=256
ok=polypow(2**n-1,rev,deg)==1
bad=[p for p in prime_factors(n) if polypow((2**n-1)//p,rev,deg)==1]
print("primitive:",ok and not bad)
# jump polynomial check: x^(2^128) mod charpoly == published JUMP?
J=[0x180ec6d33cfd0aba,0xd5a61266f0c9392c,0xa9582618e03fc9aa,0x39abdc4529b1661c]
jp=polypow(2**128,rev,deg)
print("jump poly matches:",jp==pack(J), hex(jp)[:20])
LJ=[0x76e15d3efefdcbbf,0xc5004e441c522fb3,0x77710069854ee241,0x39109bb02acbe635]
print("long jump matches:",polypow(2**192,rev,deg)==pack(LJ))
