import io,sys,contextlib
with contextlib.redirect_stdout(io.StringIO()):
    from per2 import *
J={"xoroshiro128":([0xdf900294d8f554a5,0x170865df4b3201fc],[0xd2a98b26625eee7b,0xdddf9b1090aa7ac1]),
"xoroshiro128pp":([0x2bd7a6a6e99c2ddc,0x0992ccaf6a6fca05],[0x360fd5f2cf8d5d99,0x9c6e6877736c46e3]),
"xoshiro128":([0x8764000b,0xf542d2d3,0x6fa035c3,0x77f2db5b],[0xb523952e,0x0b6f099f,0xccf5a0ef,0x1c580662]),
"xoshiro256":([0x180ec6d33cfd0aba,0xd5a61266f0c9392c,0xa9582618e03fc9aa,0x39abdc4529b1661c],[0x76e15d3efefdcbbf,0xc5004e441c522fb3,0x77710069854ee241,0x39109bb02acbe635]),
"xoshiro512":([0x33ed89b6e7a353f9,0x760083d7955323be,0x2837f2fbb5f22fae,0x4b8c5674d309511c,0xb11ac47a7ba28c25,0xf1be7667092bcc1c,0x53851efdb6df0aaf,0x1ebbc8b23eaf25db],
[0x11467fef8f921d28,0xa2a819f2e79c8ea8,0xa8299fc284b3959a,0xb4d347340ca63ee1,0x1cb0940bedbff6ce,0xd956c5c4fa1f8e17,0x915e38fd4eda93bc,0x5b3ccdfa5d7daca5])}
random.seed(5)
for name,(f,k,w) in engines().items():
    if name not in J: continue
    n=k*w; s=[random.getrandbits(w) for _ in range(k)]; bits=[]
    for i in range(2*n+8): bits.append(s[0]&1); s=f(s)
    c,L=bm(bits); rev=0
    for i in range(L+1):
        if (c>>i)&1: rev|=1<<(L-i)
    j,lj=J[name]
    print(name, polypow(2**(n//2),rev,L)==pack(j,w), polypow(2**(3*n//4),rev,L)==pack(lj,w))
