import json,struct
from pyref import *
d=json.load(open('crate_out.json'))
for c in d['cases']:
    seed=bytes(c['seed']); w=list(struct.unpack('<8I',seed)); q=list(struct.unpack('<4Q',seed))
    h=HC128(w[:4],w[4:]); assert [h.next() for _ in c['hc']]==c['hc'],"hc"
    i=ISAAC(w,2); assert [i.next() for _ in c['isaac']]==c['isaac'],"isaac"
    j=ISAAC64(q,2); assert [j.next() for _ in c['isaac64']]==[int(v) for v in c['isaac64']],"isaac64"
    u=int(c['u'])
    i=ISAAC([u&M32,u>>32],1); assert [i.next() for _ in c['isaac_u']]==c['isaac_u']
    j=ISAAC64([u],1); assert [j.next() for _ in c['isaac64_u']]==[int(v) for v in c['isaac64_u']]
print("hc/isaac/isaac64 agree on",len(d['cases']),"seeds")
i=ISAAC([],0); print([hex(i.next()) for _ in range(3)])
for c in d['jit']:
    s=[int(v) for v in c['script']]; pos=[0]
    def t():
        v=s[pos[0]]; pos[0]+=1; return v
    m=Jitter(t); m.rounds=c['rounds']
    outs=[m.next_u64(),m.next_u32(),m.next_u32(),m.next_u64()]
    assert outs==[int(v) for v in c['outs']],(outs,c['outs'])
    assert pos[0]==c['reads'],(pos[0],c['reads'])
print("jitter agree on",len(d['jit']),"scripts")
