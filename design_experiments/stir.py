M=(1<<64)-1
def rotl(x,k): k%=64; return ((x<<k)|(x>>(64-k)))&M if k else x
def stir(d):
    C=0x67452301efcdab89; mixer=0x98badcfe10325476
    for i in range(64):
        if (d>>i)&1: mixer^=C
        mixer=rotl(mixer,1)
    return d^mixer
def lfsr(data,time):
    for i in range(1,65):
        tmp=(time<<(64-i))&M; tmp>>=63
        data^=tmp
        for s in (63,60,55,30,27,22):
            data^=(data>>s)&1
        data=rotl(data,1)
    return data
def rank(rows):
    rows=list(rows); r=0
    for bit in range(64):
        p=None
        for i in range(r,len(rows)):
            if (rows[i]>>bit)&1: p=i;break
        if p is None: continue
        rows[r],rows[p]=rows[p],rows[r]
        for i in range(len(rows)):
            if i!=r and (rows[i]>>bit)&1: rows[i]^=rows[r]
        r+=1
    return r
c=stir(0)
print("stir rank", rank([stir(1<<i)^c for i in range(64)]))
print("lfsr data rank", rank([lfsr(1<<i,0) for i in range(64)]), "lfsr(0,0)=",lfsr(0,0))
print("lfsr time rank", rank([lfsr(0,1<<i) for i in range(64)]))
import random
random.seed(1)
for _ in range(2000):
    a,b,c_,t1,t2=[random.getrandbits(64) for _ in range(5)]
    assert lfsr(a^b,t1^t2)==lfsr(a,t1)^lfsr(b,t2)
    assert stir(a)^stir(b)^stir(c_)==stir(a^b^c_)
print("linear ok")
