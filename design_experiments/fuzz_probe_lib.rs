use rand_core::RngCore;
use rand_jitter::JitterRng;
use std::sync::atomic::{AtomicUsize, Ordering};
use std::sync::Arc;
pub fn run(data: &[u8]) {
    if data.len() < 16 { return; }
    let mut script = Vec::new();
    let mut t = 1000u64;
    for c in data.chunks_exact(4) {
        let d = i32::from_le_bytes([c[0],c[1],c[2],c[3]]) as i64 as u64;
        t = t.wrapping_add(d);
        script.push(t);
    }
    let pos = Arc::new(AtomicUsize::new(0));
    let p2 = pos.clone();
    let s = Arc::new(script);
    let timer = move || {
        let i = p2.fetch_add(1, Ordering::Relaxed);
        if i < s.len() { s[i] } else { 1_000_000 + (i as u64) * 1000 + ((i as u64).wrapping_mul(0x9E3779B97F4A7C15) >> 55) }
    };
    let mut rng = JitterRng::new_with_timer(timer);
    rng.set_rounds(2);
    let _ = rng.next_u64();
}
