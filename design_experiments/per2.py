from per import *  # reuses helpers (runs its checks again)
def engines():
    def xoro(w,a,b,c):
        m=(1<<w)-1
        def f(s):
            s0,s1=s; s1^=s0; n0=rotl(s0,a,w)^s1^((s1<<b)&m); n1=rotl(s1,c,w); return [n0,n1]
        return f
    def xosh(w,sh,rt):
        m=(1<<w)-1
        def f(s):
            s=list(s); t=(s[1]<<sh)&m
            s[2]^=s[0]; s[3]^=s[1]; s[1]^=s[2]; s[0]^=s[3]; s[2]^=t; s[3]=rotl(s[3],rt,w); return s
        return f
    def x512(s):
        s=list(s); t=(s[1]<<11)&M64
        s[2]^=s[0]; s[5]^=s[1]; s[1]^=s[2]; s[7]^=s[3]; s[3]^=s[4]; s[4]^=s[5]; s[0]^=s[6]; s[6]^=s[7]; s[6]^=t; s[7]=rotl(s[7],21); return s
    def xs128(s):
        x,y,z,w=s; m=(1<<32)-1
        t=x^((x<<11)&m); return [y,z,w,w^(w>>19)^t^(t>>8)]
    return {"xoroshiro64":(xoro(32,26,9,13),2,32),"xoroshiro128":(xoro(64,24,16,37),2,64),"xoroshiro128pp":(xoro(64,49,21,28),2,64),
            "xoshiro128":(xosh(32,9,11),4,32),"xoshiro256":(xosh(64,17,45),4,64),"xoshiro512":(x512,8,64),"xorshift128":(xs128,4,32)}
import random
random.seed(3)
for name,(f,k,w) in engines().items():
    n=k*w
    s=[random.getrandbits(w) for _ in range(k)]
    bits=[]
    for i in range(2*n+8):
        bits.append(s[0]&1); s=f(s)
    c,L=bm(bits)
    rev=0
    for i in range(L+1):
        if (c>>i)&1: rev|=1<<(L-i)
    ok=L==n and polypow(2**n-1,rev,L)==1 and not [p for p in prime_factors(n) if polypow((2**n-1)//p,rev,L)==1]
    print(name,n,"deg",L,"primitive",ok)
