#!/bin/bash
# tools/sweep.sh <tier> <seed>... : run every check with each seed; print only non-OK lines
tier=$1; shift
for s in "$@"; do
  for p in C01 C02 C03 C04 C05 C06 C07 C08 C09 C10 C11 C12 C13 C14 C15 C16 C17 C18 C19; do
    out=$(VERIF_SEED=$s /verif/check $p $tier 2>&1); rc=$?
    if [ $rc -ne 0 ]; then echo "seed=$s $p rc=$rc"; echo "$out" | head -8; fi
  done
  echo "seed $s done"
done
