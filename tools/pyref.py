# Independent spec-level reference models (written from the published algorithm descriptions)
M32=0xFFFFFFFF; M64=(1<<64)-1
def rotr32(x,n): return ((x>>n)|(x<<(32-n)))&M32
def rotl32(x,n): return ((x<<n)|(x>>(32-n)))&M32

class HC128:
    """Hongjun Wu, 'The Stream Cipher HC-128' (eSTREAM portfolio), section 2."""
    def __init__(self,key,iv):  # key, iv: lists of four 32-bit words
        f1=lambda x: rotr32(x,7)^rotr32(x,18)^(x>>3)
        f2=lambda x: rotr32(x,17)^rotr32(x,19)^(x>>10)
        W=[0]*1280
        for i in range(8): W[i]=key[i%4]
        for i in range(8,16): W[i]=iv[(i-8)%4]
        for i in range(16,1280):
            W[i]=(f2(W[i-2])+W[i-7]+f1(W[i-15])+W[i-16]+i)&M32
        self.P=W[256:768]; self.Q=W[768:1280]
        self.i=0
        for i in range(512):
            P=self.P
            P[i]=((P[i]+self.g1(P[(i-3)%512],P[(i-10)%512],P[(i-511)%512]))&M32)^self.h1(P[(i-12)%512])
        for i in range(512):
            Q=self.Q
            Q[i]=((Q[i]+self.g2(Q[(i-3)%512],Q[(i-10)%512],Q[(i-511)%512]))&M32)^self.h2(Q[(i-12)%512])
    def g1(self,x,y,z): return ((rotr32(x,10)^rotr32(z,23))+rotr32(y,8))&M32
    def g2(self,x,y,z): return ((rotl32(x,10)^rotl32(z,23))+rotl32(y,8))&M32
    def h1(self,x): return (self.Q[x&0xFF]+self.Q[256+((x>>16)&0xFF)])&M32
    def h2(self,x): return (self.P[x&0xFF]+self.P[256+((x>>16)&0xFF)])&M32
    def next(self):
        j=self.i%512
        if self.i%1024<512:
            P=self.P
            P[j]=(P[j]+self.g1(P[(j-3)%512],P[(j-10)%512],P[(j-511)%512]))&M32
            s=self.h1(P[(j-12)%512])^P[j]
        else:
            Q=self.Q
            Q[j]=(Q[j]+self.g2(Q[(j-3)%512],Q[(j-10)%512],Q[(j-511)%512]))&M32
            s=self.h2(Q[(j-12)%512])^Q[j]
        self.i+=1
        return s

class ISAAC:
    """Bob Jenkins, rand.c (ISAAC, 32-bit), randinit(flag) + isaac(); results read as rand() does."""
    def __init__(self,seed_words,passes):  # seed_words: up to 256 words placed in randrsl; passes: 0 (unseeded),1,2
        self.mm=[0]*256; self.aa=self.bb=self.cc=0
        r=list(seed_words)+[0]*(256-len(seed_words))
        a=b=c=d=e=f=g=h=0x9e3779b9
        def mix(a,b,c,d,e,f,g,h):
            a^=(b<<11)&M32; d=(d+a)&M32; b=(b+c)&M32
            b^=c>>2;        e=(e+b)&M32; c=(c+d)&M32
            c^=(d<<8)&M32;  f=(f+c)&M32; d=(d+e)&M32
            d^=e>>16;       g=(g+d)&M32; e=(e+f)&M32
            e^=(f<<10)&M32; h=(h+e)&M32; f=(f+g)&M32
            f^=g>>4;        a=(a+f)&M32; g=(g+h)&M32
            g^=(h<<8)&M32;  b=(b+g)&M32; h=(h+a)&M32
            h^=a>>9;        c=(c+h)&M32; a=(a+b)&M32
            return a,b,c,d,e,f,g,h
        for _ in range(4): a,b,c,d,e,f,g,h=mix(a,b,c,d,e,f,g,h)
        m=self.mm
        for i in range(0,256,8):
            if passes>=1:
                a=(a+r[i])&M32;b=(b+r[i+1])&M32;c=(c+r[i+2])&M32;d=(d+r[i+3])&M32
                e=(e+r[i+4])&M32;f=(f+r[i+5])&M32;g=(g+r[i+6])&M32;h=(h+r[i+7])&M32
            a,b,c,d,e,f,g,h=mix(a,b,c,d,e,f,g,h)
            m[i:i+8]=[a,b,c,d,e,f,g,h]
        if passes>=2:
            for i in range(0,256,8):
                a=(a+m[i])&M32;b=(b+m[i+1])&M32;c=(c+m[i+2])&M32;d=(d+m[i+3])&M32
                e=(e+m[i+4])&M32;f=(f+m[i+5])&M32;g=(g+m[i+6])&M32;h=(h+m[i+7])&M32
                a,b,c,d,e,f,g,h=mix(a,b,c,d,e,f,g,h)
                m[i:i+8]=[a,b,c,d,e,f,g,h]
        self.rsl=[0]*256; self.cnt=0   # first rand() call triggers isaac()
    def isaac(self):
        mm=self.mm
        self.cc=(self.cc+1)&M32; a=self.aa; b=(self.bb+self.cc)&M32
        for i in range(256):
            x=mm[i]
            k=i%4
            if k==0: a^=(a<<13)&M32
            elif k==1: a^=a>>6
            elif k==2: a^=(a<<2)&M32
            else: a^=a>>16
            a=(a+mm[(i+128)%256])&M32
            y=(mm[(x>>2)&255]+a+b)&M32; mm[i]=y
            b=(mm[(y>>10)&255]+x)&M32; self.rsl[i]=b
        self.aa=a; self.bb=b
    def next(self):
        if self.cnt==0:
            self.isaac(); self.cnt=256
        self.cnt-=1
        return self.rsl[self.cnt]

class ISAAC64:
    """Bob Jenkins, isaac64.c."""
    def __init__(self,seed_words,passes):
        self.mm=[0]*256; self.aa=self.bb=self.cc=0
        r=list(seed_words)+[0]*(256-len(seed_words))
        a=b=c=d=e=f=g=h=0x9e3779b97f4a7c13
        def mix(a,b,c,d,e,f,g,h):
            a=(a-e)&M64; f^=h>>9;        h=(h+a)&M64
            b=(b-f)&M64; g^=(a<<9)&M64;  a=(a+b)&M64
            c=(c-g)&M64; h^=b>>23;       b=(b+c)&M64
            d=(d-h)&M64; a^=(c<<15)&M64; c=(c+d)&M64
            e=(e-a)&M64; b^=d>>14;       d=(d+e)&M64
            f=(f-b)&M64; c^=(e<<20)&M64; e=(e+f)&M64
            g=(g-c)&M64; d^=f>>17;       f=(f+g)&M64
            h=(h-d)&M64; e^=(g<<14)&M64; g=(g+h)&M64
            return a,b,c,d,e,f,g,h
        for _ in range(4): a,b,c,d,e,f,g,h=mix(a,b,c,d,e,f,g,h)
        m=self.mm
        for i in range(0,256,8):
            if passes>=1:
                a=(a+r[i])&M64;b=(b+r[i+1])&M64;c=(c+r[i+2])&M64;d=(d+r[i+3])&M64
                e=(e+r[i+4])&M64;f=(f+r[i+5])&M64;g=(g+r[i+6])&M64;h=(h+r[i+7])&M64
            a,b,c,d,e,f,g,h=mix(a,b,c,d,e,f,g,h)
            m[i:i+8]=[a,b,c,d,e,f,g,h]
        if passes>=2:
            for i in range(0,256,8):
                a=(a+m[i])&M64;b=(b+m[i+1])&M64;c=(c+m[i+2])&M64;d=(d+m[i+3])&M64
                e=(e+m[i+4])&M64;f=(f+m[i+5])&M64;g=(g+m[i+6])&M64;h=(h+m[i+7])&M64
                a,b,c,d,e,f,g,h=mix(a,b,c,d,e,f,g,h)
                m[i:i+8]=[a,b,c,d,e,f,g,h]
        self.rsl=[0]*256; self.cnt=0
    def isaac(self):
        mm=self.mm
        self.cc=(self.cc+1)&M64; a=self.aa; b=(self.bb+self.cc)&M64
        for i in range(256):
            x=mm[i]; k=i%4
            if k==0: a=(~(a^((a<<21)&M64)))&M64
            elif k==1: a^=a>>5
            elif k==2: a^=(a<<12)&M64
            else: a^=a>>33
            a=(a+mm[(i+128)%256])&M64
            y=(mm[(x>>3)&255]+a+b)&M64; mm[i]=y
            b=(mm[(y>>11)&255]+x)&M64; self.rsl[i]=b
        self.aa=a; self.bb=b
    def next(self):
        if self.cnt==0:
            self.isaac(); self.cnt=256
        self.cnt-=1
        return self.rsl[self.cnt]

def rotl64(x,k): k%=64; return ((x<<k)|(x>>(64-k)))&M64 if k else x
class Jitter:
    """Jitterentropy 2.1.0 collection as documented in rand_jitter (feedback form of the LFSR)."""
    def __init__(self,timer): self.t=timer; self.data=0; self.rounds=64; self.half=False
    def fold(self,time):
        d=self.data
        for i in range(64):
            f=((time>>i)&1)^((d>>63)&1)^((d>>60)&1)^((d>>55)&1)^((d>>30)&1)^((d>>27)&1)^((d>>22)&1)
            d=rotl64(d^f,1)
        self.data=d
    def measure(self,ec):
        self.t()                      # loop count of the memory-access noise source
        time=self.t()
        delta=(time-ec['prev'])&M32   # truncated to 32 bits (two's complement)
        ec['prev']=time
        sd=delta-(1<<32) if delta>>31 else delta
        self.t()                      # loop count of the LFSR noise source
        self.fold(sd&M64)             # sign-extended
        d2=(ec['ld']-delta)&M32; d3=(d2-ec['ld2'])&M32
        ec['ld']=delta; ec['ld2']=d2
        if delta==0 or d2==0 or d3==0: return False
        self.data=rotl64(self.data,7); return True
    def stir(self):
        C=0x67452301efcdab89; mixer=0x98badcfe10325476
        for i in range(64):
            if (self.data>>i)&1: mixer^=C
            mixer=rotl64(mixer,1)
        self.data^=mixer
    def collect(self):
        ec={'prev':self.t(),'ld':0,'ld2':0}
        self.measure(ec)
        for _ in range(self.rounds):
            while not self.measure(ec): pass
        self.stir(); return self.data
    def next_u64(self): self.half=False; return self.collect()
    def next_u32(self):
        if self.half: self.half=False; return self.data>>32
        self.data=self.next_u64(); self.half=True; return self.data&M32

# ---- Blackman-Vigna generators (written from the C reference sources) ----
def _rotl(x,k,w): m=(1<<w)-1; return ((x<<k)|(x>>(w-k)))&m
class Vigna:
    def __init__(self,name,words):
        self.name=name; self.s=list(words)
        self.w=32 if name.startswith(('Xoroshiro64','Xoshiro128')) else 64
    def next(self):
        n=self.name; s=self.s; w=self.w; m=(1<<w)-1
        if n=='SplitMix64':
            s[0]=(s[0]+0x9e3779b97f4a7c15)&m; z=s[0]
            z=((z^(z>>30))*0xbf58476d1ce4e5b9)&m; z=((z^(z>>27))*0x94d049bb133111eb)&m
            return z^(z>>31)
        if n.startswith('Xoroshiro'):
            s0,s1=s
            if n=='Xoroshiro64Star': r=(s0*0x9E3779BB)&m
            elif n=='Xoroshiro64StarStar': r=(_rotl((s0*0x9E3779BB)&m,5,w)*5)&m
            elif n=='Xoroshiro128Plus': r=(s0+s1)&m
            elif n=='Xoroshiro128StarStar': r=(_rotl((s0*5)&m,7,w)*9)&m
            elif n=='Xoroshiro128PlusPlus': r=(_rotl((s0+s1)&m,17,w)+s0)&m
            a,b,c={'Xoroshiro64Star':(26,9,13),'Xoroshiro64StarStar':(26,9,13),'Xoroshiro128Plus':(24,16,37),
                   'Xoroshiro128StarStar':(24,16,37),'Xoroshiro128PlusPlus':(49,21,28)}[n]
            s1^=s0; s[0]=_rotl(s0,a,w)^s1^((s1<<b)&m); s[1]=_rotl(s1,c,w)
            return r
        if n.startswith('Xoshiro512'):
            if n.endswith('StarStar'): r=(_rotl((s[1]*5)&m,7,w)*9)&m
            elif n.endswith('PlusPlus'): r=(_rotl((s[0]+s[2])&m,17,w)+s[2])&m
            else: r=(s[0]+s[2])&m
            t=(s[1]<<11)&m
            s[2]^=s[0]; s[5]^=s[1]; s[1]^=s[2]; s[7]^=s[3]; s[3]^=s[4]; s[4]^=s[5]; s[0]^=s[6]; s[6]^=s[7]; s[6]^=t; s[7]=_rotl(s[7],21,w)
            return r
        # xoshiro128 / xoshiro256
        sh,rt,pp=(9,11,7) if w==32 else (17,45,23)
        if n.endswith('StarStar'): r=(_rotl((s[1]*5)&m,7,w)*9)&m
        elif n.endswith('PlusPlus'): r=(_rotl((s[0]+s[3])&m,pp,w)+s[0])&m
        else: r=(s[0]+s[3])&m
        t=(s[1]<<sh)&m
        s[2]^=s[0]; s[3]^=s[1]; s[1]^=s[2]; s[0]^=s[3]; s[2]^=t; s[3]=_rotl(s[3],rt,w)
        return r

def mix4_upper32(z):
    z=((z^(z>>33))*0x62A9D9ED799705F5)&M64
    return (((z^(z>>28))*0xCB24D0A5C88C35B3)&M64)>>32

def xor128(x,y,z,w,n):
    out=[]
    for _ in range(n):
        t=(x^(x<<11))&M32; x,y,z=y,z,w; w=(w^(w>>19)^t^(t>>8))&M32; out.append(w)
    return out

def pcg32_expand(state,n):
    out=b''
    while len(out)<n:
        state=(state*6364136223846793005+11634580027462260723)&M64
        xs=(((state>>18)^state)>>27)&M32; rot=state>>59
        out+=(((xs>>rot)|(xs<<((32-rot)&31)))&M32).to_bytes(4,'little')
    return out[:n]
