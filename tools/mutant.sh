#!/bin/bash
# tools/mutant.sh '<file relative to the repo>' '<sed expression>' C01 C07 ...   (quick tier)
# Applies one mutation in the scratch sandbox /tmp/sb (never in /repo), runs the listed checks
# there, and reverts. Also: tools/mutant.sh --patch <file.diff> C01 ...
set -u
SB=${SB_DIR:-/tmp/sb}
/verif/tools/sandbox.sh >/dev/null || exit 2
trap 'git -C $SB/repo checkout -- . ' EXIT
cd $SB/repo || exit 2
if [ "$1" = "--patch" ]; then
  git apply "$2" || exit 3; shift 2
else
  file="$1"; expr="$2"; shift 2
  sed -i -E "$expr" "$file"
fi
if git diff --quiet; then echo "MUTATION DID NOT APPLY"; exit 3; fi
git --no-pager diff -U0 | grep '^[+-]' | grep -v '^+++\|^---' | head -12
for p in "$@"; do
  VERIF_SEED=${VERIF_SEED:-0} $SB/verif/check "$p" ${TIER:-quick} 2>&1 | grep -E "VIOLATION|INCONCLUSIVE|signature| -> |expected" | head -6
done
