#!/bin/bash
# tools/mutant.sh '<file relative to /repo>' '<sed expression>' C01 C07 ...   (quick tier)
# Applies one mutation to /repo's working tree, runs the listed checks, and always reverts.
# Only for sensitivity experiments; never leaves /repo modified.
set -u
file="$1"; expr="$2"; shift 2
cd /repo || exit 2
if ! git diff --quiet; then echo "refusing: /repo has uncommitted changes"; exit 2; fi
trap 'git -C /repo checkout -- . ' EXIT
sed -i -E "$expr" "$file"
if git diff --quiet; then echo "MUTATION DID NOT APPLY"; exit 3; fi
git --no-pager diff -U0 | grep '^[+-]' | grep -v '^+++\|^---'
for p in "$@"; do
  VERIF_SEED=${VERIF_SEED:-0} /verif/check "$p" ${TIER:-quick} 2>&1 | grep -E "VIOLATION|INCONCLUSIVE|signature| -> |expected" | head -6
done
