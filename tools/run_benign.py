#!/usr/bin/env python3
"""tools/run_benign.py <dir with nK/patch.diff ...>
Negative controls: applies each behaviour-preserving patch in the sandbox /tmp/sb and runs ALL
quick checks; any exit code other than 0 is a false alarm (1) or a robustness problem (2).
Confirmed-silent patches are stored under /verif/seeded/benign-<tag>-nK/."""
import glob, json, os, re, shutil, subprocess, sys
src = sys.argv[1].rstrip('/')
tag = os.path.basename(src).replace('seed4_', '').replace('seed5_', '').replace('seed6_', '').replace('seed9_', '').replace('seed13_', '').replace('N9b', 'N9')
SB = os.environ.get('SB_DIR', '/tmp/sb')
PROPS = [f"C{i:02d}" for i in range(1, 20)]
def sh(cmd, timeout=7200):
    p = subprocess.run(cmd, shell=True, capture_output=True, text=True, timeout=timeout)
    return p.returncode, p.stdout + p.stderr
for d in sorted(glob.glob(f'{src}/n*/')):
    name = f"benign-{tag}-{os.path.basename(d.rstrip('/'))}"
    rc, out = sh('/verif/tools/sandbox.sh'); assert rc == 0, out
    rc, out = sh(f'git -C {SB}/repo apply {d}patch.diff')
    if rc != 0:
        print(name, "patch does not apply", out[:200]); continue
    res = {}
    try:
        # the repository's own tests must pass with it (it claims to be behaviour preserving)
        rc, out = sh(f'cd {SB}/repo && CARGO_NET_OFFLINE=true cargo test --workspace --no-fail-fast --offline')
        res['repo_tests'] = 'pass' if rc == 0 else 'FAIL'
        for p in PROPS:
            rc, out = sh(f'{SB}/verif/check {p} quick')
            if rc != 0:
                res[p] = {'exit': rc, 'out': '\n'.join(l for l in out.splitlines() if re.search(r'VIOLATION|INCONCLUSIVE|signature|expected', l))[:1500]}
    finally:
        sh(f'git -C {SB}/repo checkout -- .')
    alarms = {k: v for k, v in res.items() if k != 'repo_tests'}
    print(name, res['repo_tests'], "ALARMS:" if alarms else "silent", json.dumps(alarms)[:1500])
    meta = json.load(open(f'{d}meta.json'))
    meta['checks'] = {'all_19_quick': 'silent' if not alarms else alarms, 'repo_tests': res['repo_tests']}
    dst = f'/verif/seeded/{name}'
    os.makedirs(dst, exist_ok=True)
    shutil.copy(f'{d}patch.diff', dst)
    json.dump(meta, open(f'{dst}/meta.json', 'w'), indent=1)
