#!/usr/bin/env python3
"""tools/confirm_seed.py /tmp/seed_Cxx/mK [check ids...]
Confirms a sub-agent's seeded change independently in a scratch worktree (/tmp/wt_confirm):
 (1) demo passes on the clean tree, (2) demo fails with the patch, (3) the repository's test
 suite passes with the patch; then applies the patch in the scratch sandbox /tmp/sb, runs the listed checks there (default:
 the property's own quick check), reverts the sandbox, and stores everything under /verif/seeded/."""
import json, os, re, shutil, subprocess, sys
src = sys.argv[1].rstrip('/')
checks = sys.argv[2:]
meta = json.load(open(f'{src}/meta.json'))
prop = meta['property']
name = f"{prop}-{os.path.basename(src)}"
m2 = re.search(r'seed2_(C\d+)/(m\d+|alt_m\d+)$', src)
if m2:
    name = f"{prop}-r2-{m2.group(1)}{m2.group(2)}"   # round 2: <property>-r2-<agent><mK>
if not checks: checks = [prop]
WT = '/tmp/wt_confirm'
env = dict(os.environ, CARGO_NET_OFFLINE='true')
def sh(cmd, cwd=None, timeout=1800):
    p = subprocess.run(cmd, shell=True, cwd=cwd, env=env, capture_output=True, text=True, timeout=timeout)
    return p.returncode, p.stdout + p.stderr
if not os.path.isdir(WT):
    rc, out = sh(f'git -C /repo worktree add -q --detach {WT} HEAD'); assert rc == 0, out
sh('git checkout -q -- . && git clean -fdq -e target', WT)
how = meta.get('how_demo_is_run', '').split('#')[0]
m = re.search(r'cp\s+\S*demo\.rs\s+(\S+?/tests/(\S+?)\.rs)', how)
if not m:
    print("cannot derive demo placement from meta.json; confirm by hand:", how); sys.exit(2)
rel, tname = m.group(1), m.group(2)
rel = re.sub(r'^.*?(rand_[a-z]+/tests/)', r'\1', rel)
crate = rel.split('/')[0]
feat = ''
fm = re.search(r'--features\s+([\w,\-]+)', how)
if fm: feat = f'--features {fm.group(1)}'
if re.search(r'--release', how): feat += ' --release'
rf = re.search(r'RUSTFLAGS=\\?"([^"\\]+)\\?"', how)
if rf: env['RUSTFLAGS'] = rf.group(1)
os.makedirs(os.path.dirname(f'{WT}/{rel}'), exist_ok=True)
shutil.copy(f'{src}/demo.rs', f'{WT}/{rel}')
res = {}
rc, out = sh(f'cargo test -p {crate} --offline {feat} --test {tname}', WT)
res['demo_on_clean_tree'] = 'pass' if rc == 0 else 'FAIL'
rc, out = sh(f'git apply {src}/patch.diff', WT)
if rc != 0: print("patch does not apply:", out); sys.exit(2)
rc, out = sh(f'cargo test -p {crate} --offline {feat} --test {tname}', WT)
res['demo_with_patch'] = 'fail' if rc != 0 else 'PASSES'
os.remove(f'{WT}/{rel}')
env.pop('RUSTFLAGS', None)
rc, out = sh('cargo test --workspace --no-fail-fast --offline', WT)
res['repo_tests_with_patch'] = 'pass' if rc == 0 else 'FAIL'
if rc != 0: res['repo_tests_output'] = '\n'.join(l for l in out.splitlines() if 'FAILED' in l or 'panicked' in l)[:2000]
sh('git checkout -q -- . && git clean -fdq -e target', WT)
# run our checks against the change in /repo
# the checks run in the scratch sandbox /tmp/sb (tools/sandbox.sh), never against /repo itself
SB = '/tmp/sb'
rc, out = sh('/verif/tools/sandbox.sh'); assert rc == 0, out
det = {}
try:
    rc, out = sh(f'git -C {SB}/repo apply {src}/patch.diff'); assert rc == 0, out
    for c in checks:
        rc, out = sh(f'{SB}/verif/check {c} {os.environ.get("TIER","quick")}', timeout=7200)
        sigs = sorted(set(re.findall(r'signature=(\S+)', out)))
        det[c] = {'exit': rc, 'signatures': sigs[:6]}
finally:
    sh(f'git -C {SB}/repo checkout -- .')
ok = res['demo_on_clean_tree'] == 'pass' and res['demo_with_patch'] == 'fail' and res['repo_tests_with_patch'] == 'pass'
meta['confirmed'] = res
meta['checks_run'] = det
meta['detected_by'] = [c for c, d in det.items() if d['exit'] == 1]
meta['demo_placement'] = rel
print(name, json.dumps(res), json.dumps(det))
if ok:
    dst = f'/verif/seeded/{name}'
    os.makedirs(dst, exist_ok=True)
    shutil.copy(f'{src}/patch.diff', dst); shutil.copy(f'{src}/demo.rs', dst)
    json.dump(meta, open(f'{dst}/meta.json', 'w'), indent=1)
    print("kept as", dst, "detected_by", meta['detected_by'])
else:
    print("NOT KEPT (confirmation failed)")
