#!/usr/bin/env python3
"""tools/confirm_seed.py <dir> [check ids...]          confirm a sub-agent's seeded change and run checks
   tools/confirm_seed.py --recheck /verif/seeded/<name> [check ids...]   only re-run the checks

Confirmation happens in a scratch worktree (/tmp/wt_confirm): (1) the demo passes on the clean
tree, (2) the demo fails with the patch, (3) the repository's test suite passes with the patch.
The checks then run in the scratch sandbox /tmp/sb (tools/sandbox.sh) with the patch applied
there — never against /repo itself. A confirmed change is stored under /verif/seeded/<name>/
(patch.diff, demo.rs, meta.json with what was run and which checks reported a violation)."""
import json, os, re, shutil, subprocess, sys

RECHECK = '--recheck' in sys.argv
if RECHECK:
    sys.argv.remove('--recheck')
src = sys.argv[1].rstrip('/')
checks = sys.argv[2:]
meta = json.load(open(f'{src}/meta.json'))
prop = meta['property']
name = f"{prop}-{os.path.basename(src)}"
m2 = re.search(r'seed(\d+)_(\w+)/(m\d+|alt_m\d+)$', src)
if m2:
    name = f"{prop}-r{m2.group(1)}-{m2.group(2)}{m2.group(3)}"   # later rounds: <property>-r<round>-<agent><mK>
if RECHECK:
    name = os.path.basename(src)
    if not checks:
        checks = sorted(set([prop] + meta.get('detected_by', [])))
if not checks:
    checks = [prop]
WT = os.environ.get('WT_DIR', '/tmp/wt_confirm')
SB = os.environ.get('SB_DIR', '/tmp/sb')
env = dict(os.environ, CARGO_NET_OFFLINE='true')


def sh(cmd, cwd=None, timeout=1800, e=None):
    p = subprocess.run(cmd, shell=True, cwd=cwd, env=e or env, capture_output=True, text=True, timeout=timeout)
    return p.returncode, p.stdout + p.stderr


res = meta.get('confirmed', {})
if not RECHECK:
    if not os.path.isdir(WT):
        rc, out = sh(f'git -C /repo worktree add -q --detach {WT} HEAD')
        assert rc == 0, out
    sh('git checkout -q -- . && git clean -fdq -e target', WT)
    how = meta.get('how_demo_is_run', '').split('#')[0]
    m = re.search(r'cp\s+\S*demo\.rs\s+(\S+?/tests/(\S+?)\.rs)', how)
    if not m:
        print("cannot derive demo placement from meta.json; confirm by hand:", how)
        sys.exit(2)
    rel, tname = m.group(1), m.group(2)
    rel = re.sub(r'^.*?(rand_[a-z]+/tests/)', r'\1', rel)
    crate = rel.split('/')[0]
    feat = ''
    fm = re.search(r'--features\s+([\w,\-]+)', how)
    if fm:
        feat = f'--features {fm.group(1)}'
    if re.search(r'--release', how):
        feat += ' --release'
    denv = dict(env)
    rf = re.search(r'RUSTFLAGS=\\?"([^"\\]+)\\?"', how)
    if rf:
        denv['RUSTFLAGS'] = rf.group(1)
    os.makedirs(os.path.dirname(f'{WT}/{rel}'), exist_ok=True)
    shutil.copy(f'{src}/demo.rs', f'{WT}/{rel}')
    res = {}
    rc, out = sh(f'cargo test -p {crate} --offline {feat} --test {tname}', WT, e=denv)
    res['demo_on_clean_tree'] = 'pass' if rc == 0 else 'FAIL'
    rc, out = sh(f'git apply {src}/patch.diff', WT)
    if rc != 0:
        print("patch does not apply:", out)
        sys.exit(2)
    rc, out = sh(f'cargo test -p {crate} --offline {feat} --test {tname}', WT, e=denv)
    res['demo_with_patch'] = 'fail' if rc != 0 else 'PASSES'
    os.remove(f'{WT}/{rel}')
    rc, out = sh('cargo test --workspace --no-fail-fast --offline', WT)
    res['repo_tests_with_patch'] = 'pass' if rc == 0 else 'FAIL'
    if rc != 0:
        res['repo_tests_output'] = '\n'.join(l for l in out.splitlines() if 'FAILED' in l or 'panicked' in l)[:2000]
    sh('git checkout -q -- . && git clean -fdq -e target', WT)
    meta['demo_placement'] = rel

rc, out = sh('/verif/tools/sandbox.sh')
assert rc == 0, out
det = {}
try:
    rc, out = sh(f'git -C {SB}/repo apply {src}/patch.diff')
    assert rc == 0, out
    for c in checks:
        rc, out = sh(f'{SB}/verif/check {c} {os.environ.get("TIER", "quick")}', timeout=7200)
        sigs = sorted(set(re.findall(r'signature=(\S+)', out)))
        det[c] = {'exit': rc, 'signatures': sigs[:6]}
finally:
    sh(f'git -C {SB}/repo checkout -- .')
ok = res.get('demo_on_clean_tree') == 'pass' and res.get('demo_with_patch') == 'fail' and res.get('repo_tests_with_patch') == 'pass'
meta['confirmed'] = res
if RECHECK:
    meta.setdefault('history', []).append({'checks_run': meta.get('checks_run'), 'detected_by': meta.get('detected_by')})
meta['checks_run'] = det
meta['detected_by'] = [c for c, d in det.items() if d['exit'] == 1]
print(name, json.dumps(res), json.dumps(det))
if ok:
    dst = f'/verif/seeded/{name}'
    os.makedirs(dst, exist_ok=True)
    if not RECHECK:
        shutil.copy(f'{src}/patch.diff', dst)
        shutil.copy(f'{src}/demo.rs', dst)
    json.dump(meta, open(f'{dst}/meta.json', 'w'), indent=1)
    print("kept as", dst, "detected_by", meta['detected_by'])
else:
    print("NOT KEPT (confirmation failed)")
