#!/usr/bin/env python3
"""Build /verif/golden/vectors.json: (a) the published reference vectors quoted in the crates'
own tests at the pinned commit, parsed from the test sources; (b) vectors computed by the
independent Python models in pyref.py. Run once by hand; the result is committed and never
written at check time."""
import re, json, sys, random, os
sys.path.insert(0, os.path.dirname(__file__))
from pyref import *
REPO = sys.argv[1] if len(sys.argv) > 1 else '/repo'
out = {"published": [], "pyref": []}

def ints(txt):
    return [int(x.replace('_',''), 0) for x in re.findall(r'0x[0-9a-fA-F_]+|\d[\d_]*', txt)]

names = {"splitmix64":"SplitMix64","xoroshiro64star":"Xoroshiro64Star","xoroshiro64starstar":"Xoroshiro64StarStar",
 "xoroshiro128plus":"Xoroshiro128Plus","xoroshiro128plusplus":"Xoroshiro128PlusPlus","xoroshiro128starstar":"Xoroshiro128StarStar",
 "xoshiro128plus":"Xoshiro128Plus","xoshiro128plusplus":"Xoshiro128PlusPlus","xoshiro128starstar":"Xoshiro128StarStar",
 "xoshiro256plus":"Xoshiro256Plus","xoshiro256plusplus":"Xoshiro256PlusPlus","xoshiro256starstar":"Xoshiro256StarStar",
 "xoshiro512plus":"Xoshiro512Plus","xoshiro512plusplus":"Xoshiro512PlusPlus","xoshiro512starstar":"Xoshiro512StarStar"}
for f, ty in names.items():
    src = open(f"{REPO}/rand_xoshiro/src/{f}.rs").read()
    m = re.search(r'fn reference\(\) \{(.*?)\n    \}', src, re.S)
    body = m.group(1)
    if ty == "SplitMix64":
        seed = int(re.search(r'seed_from_u64\((\d+)\)', body).group(1)).to_bytes(8,'little')
    else:
        seed = bytes(ints(re.search(r'from_seed\(\s*(?:Seed512\()?\s*\[(.*?)\]', body, re.S).group(1)))
    exp = ints(re.search(r'let expected[^=]*=\s*\[(.*?)\];', body, re.S).group(1))
    out["published"].append({"ty": ty, "seed": seed.hex(), "native": [str(v) for v in exp]})
src = open(f"{REPO}/rand_xoshiro/src/splitmix64.rs").read()
body = re.search(r'fn next_u32\(\) \{\s*let mut rng = SplitMix64::seed_from_u64\((\d+)\);(.*?)\n    \}', src, re.S)
exp = ints(re.search(r'let expected[^=]*=\s*\[(.*?)\];', body.group(2), re.S).group(1))
out["published"].append({"ty": "SplitMix64/u32", "seed": int(body.group(1)).to_bytes(8,'little').hex(), "native": [str(v) for v in exp]})
# HC-128 vectors of Wu's paper as quoted by rand_hc tests a, b, c
src = open(f"{REPO}/rand_hc/src/hc128.rs").read()
for t in "abc":
    body = re.search(r'fn test_hc128_true_values_%s\(\) \{(.*?)\n    \}' % t, src, re.S).group(1)
    seed = bytes(ints(re.sub(r'//.*', '', re.search(r'let seed = \[(.*?)\];', body, re.S).group(1))))
    exp = ints(re.search(r'let expected = \[(.*?)\];', body, re.S).group(1))
    out["published"].append({"ty": "Hc128Rng", "seed": seed.hex(), "native": [str(v) for v in exp]})
# xorshift test vector
src = open(f"{REPO}/rand_xorshift/tests/mod.rs").read()
body = re.search(r'fn test_xorshift_true_values\(\) \{(.*?)\n\}', src, re.S).group(1)
seed = bytes(ints(re.search(r'let seed = \[(.*?)\];', body, re.S).group(1)))
exp = ints(re.search(r'let expected: \[u32; 9\] = \[(.*?)\];', body, re.S).group(1))
out["published"].append({"ty": "XorShiftRng", "seed": seed.hex(), "native": [str(v) for v in exp]})
# ISAAC / ISAAC-64 vectors quoted by the crate (seeded) tests
for f, ty, fn in (("isaac","IsaacRng","test_isaac_true_values_32"),("isaac64","Isaac64Rng","test_isaac64_true_values_64")):
    src = open(f"{REPO}/rand_isaac/src/{f}.rs").read()
    body = re.search(r'fn %s\(\) \{(.*?)\n    \}' % fn, src, re.S).group(1)
    seed = bytes(ints(re.search(r'let seed = \[(.*?)\];', body, re.S).group(1)))
    exp = ints(re.search(r'let expected = \[(.*?)\];', body, re.S).group(1))
    out["published"].append({"ty": ty, "seed": seed.hex(), "native": [str(v) for v in exp]})

# ---- vectors from the independent Python models ----
rnd = random.Random(20261002)
def rb(n): return bytes(rnd.getrandbits(8) for _ in range(n))
for ty in names.values():
    for k in range(3):
        w = 4 if ty.startswith(('Xoroshiro64','Xoshiro128')) else 8
        n = {"SplitMix64":8,"Xoroshiro64":8,"Xoroshiro128":16,"Xoshiro128":16,"Xoshiro256":32,"Xoshiro512":64}[re.match(r'SplitMix64|Xoroshiro64|Xoroshiro128|Xoshiro128|Xoshiro256|Xoshiro512', ty).group(0)]
        seed = rb(n) if k < 2 else bytes([0xff])*n
        words = [int.from_bytes(seed[i:i+w],'little') for i in range(0,n,w)]
        g = Vigna(ty, words)
        out["pyref"].append({"ty": ty, "seed": seed.hex(), "native": [str(g.next()) for _ in range(40)]})
for k in range(4):
    x = rnd.getrandbits(64); g = Vigna('SplitMix64',[x]); o=[]
    for _ in range(30):
        g.s[0]=(g.s[0]+0x9e3779b97f4a7c15)&M64; o.append(str(mix4_upper32(g.s[0])))
    out["pyref"].append({"ty":"SplitMix64/u32","seed":x.to_bytes(8,'little').hex(),"native":o})
for k in range(6):
    seed = rb(32) if k < 4 else (bytes([0]*31+[7]) if k == 4 else bytes([0xff]*32))
    w = [int.from_bytes(seed[i:i+4],'little') for i in range(0,32,4)]
    q = [int.from_bytes(seed[i:i+8],'little') for i in range(0,32,8)]
    h = HC128(w[:4], w[4:]); out["pyref"].append({"ty":"Hc128Rng","seed":seed.hex(),"native":[str(h.next()) for _ in range(2200 if k<2 else 80)]})
    i = ISAAC(w,2); out["pyref"].append({"ty":"IsaacRng","seed":seed.hex(),"native":[str(i.next()) for _ in range(600)]})
    j = ISAAC64(q,2); out["pyref"].append({"ty":"Isaac64Rng","seed":seed.hex(),"native":[str(j.next()) for _ in range(600)]})
    out["pyref"].append({"ty":"XorShiftRng","seed":seed[:16].hex(),"native":[str(v) for v in xor128(*w[:4],50)]})
for x in (0, 1, rnd.getrandbits(64), (1<<64)-1):
    i = ISAAC([x&M32, x>>32],1); out["pyref"].append({"ty":"IsaacRng/u64","seed":x.to_bytes(8,'little').hex(),"native":[str(i.next()) for _ in range(300)]})
    j = ISAAC64([x],1); out["pyref"].append({"ty":"Isaac64Rng/u64","seed":x.to_bytes(8,'little').hex(),"native":[str(j.next()) for _ in range(300)]})
    out["pyref"].append({"ty":"pcg32/32","seed":x.to_bytes(8,'little').hex(),"native":[pcg32_expand(x,32).hex()]})
# unseeded ISAAC = randinit(FALSE)
i = ISAAC([],0); out["pyref"].append({"ty":"IsaacRng/unseeded","seed":"","native":[str(i.next()) for _ in range(20)]})
j = ISAAC64([],0); out["pyref"].append({"ty":"Isaac64Rng/unseeded","seed":"","native":[str(j.next()) for _ in range(20)]})
# jitter scripts
jit = []
for case in range(12):
    script=[]; t=rnd.getrandbits(56)
    for k in range(1500):
        r=rnd.getrandbits(64); sel=(r>>60)%8
        d = 0 if sel==0 else 7 if sel==1 else (r>>8)%5 if sel==2 else (r>>8)%1000
        if case%4==3 and k%97==5: d = (1<<32) - 2147483600 + (r>>40)%50   # hostile: wraps the i32 difference
        t=(t+d)&M64
        if case%3==0 and k%50==0: t=(t-300)&M64
        script.append(t)
    pos=[0]
    def tm():
        v=script[pos[0]]; pos[0]+=1; return v
    m=Jitter(tm); m.rounds=1+case%5
    outs=[m.next_u64(), m.next_u32(), m.next_u32(), m.next_u64()]
    jit.append({"script":[str(v) for v in script[:pos[0]]],"rounds":m.rounds,"outs":[str(v) for v in outs],"reads":pos[0]})
out["jitter"]=jit
json.dump(out, open(os.path.join(os.path.dirname(__file__),'..','golden','vectors.json'),'w'))
print("published", len(out["published"]), "pyref", len(out["pyref"]), "jitter", len(jit))
