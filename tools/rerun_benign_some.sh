#!/bin/bash
# tools/rerun_benign_some.sh C07 C15 ... : re-run the stored negative controls against the named quick checks only
for d in /verif/seeded/benign-*/; do
  n=$(basename $d)
  /verif/tools/sandbox.sh >/dev/null || exit 2
  git -C /tmp/sb/repo apply $d/patch.diff || { echo "$n: patch does not apply"; continue; }
  bad=""
  for p in "$@"; do
    out=$(/tmp/sb/verif/check $p quick 2>&1); rc=$?
    if [ $rc -ne 0 ]; then bad="$bad $p(rc=$rc)"; echo "$out" | grep -E "VIOLATION|INCONCLUSIVE|signature" | head -3; fi
  done
  git -C /tmp/sb/repo checkout -- .
  echo "$n: ${bad:-silent}"
done
