#!/bin/bash
SB=${SB_DIR:-/tmp/sb}; k=$1; n=$2; shift 2; i=0
for d in /verif/seeded/benign-*/; do
  i=$((i+1)); [ $(( (i - 1) % n )) -eq $k ] || continue
  name=$(basename $d)
  /verif/tools/sandbox.sh >/dev/null || exit 2
  git -C $SB/repo apply $d/patch.diff || { echo "$name: patch does not apply"; continue; }
  bad=""
  for p in "$@"; do
    out=$($SB/verif/check $p quick 2>&1); rc=$?
    if [ $rc -ne 0 ]; then bad="$bad $p(rc=$rc)"; echo "$out" | grep -E "VIOLATION|INCONCLUSIVE|signature" | head -3; fi
  done
  git -C $SB/repo checkout -- .
  echo "$name: ${bad:-silent}"
done
