#!/usr/bin/env python3
"""Prints a markdown table of the seeded changes under /verif/seeded (for DESIGN.md)."""
import json, glob, os, re
rows = []
for d in sorted(glob.glob('/verif/seeded/C*/')):
    m = json.load(open(d + 'meta.json'))
    name = os.path.basename(d.rstrip('/'))
    summ = re.sub(r'\s+', ' ', m.get('summary', ''))
    summ = summ[:150] + ('…' if len(summ) > 150 else '')
    needs = re.sub(r'\s+', ' ', m.get('needs_to_manifest', ''))
    needs = needs[:120] + ('…' if len(needs) > 120 else '')
    det = ', '.join(m.get('detected_by', [])) or '**missed**'
    sigs = []
    for c, r in m.get('checks_run', {}).items():
        sigs += r.get('signatures', [])[:2]
    rows.append(f"| {name} | {m['property']} | {summ} | {needs} | {det} | {'; '.join(s.replace('|','/') for s in sigs[:2])} |")
print("| change | breaks | what | needs | caught by (quick tier) | first signatures |")
print("|---|---|---|---|---|---|")
print('\n'.join(rows))
