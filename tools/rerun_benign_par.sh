#!/bin/bash
# tools/rerun_benign_par.sh <k> <n> : re-run every n-th stored negative control starting at the k-th
# against all 19 quick checks in the sandbox $SB_DIR (default /tmp/sb); run several in parallel with
# different sandboxes
SB=${SB_DIR:-/tmp/sb}
k=$1; n=$2; i=0
for d in /verif/seeded/benign-*/; do
  i=$((i+1)); [ $(( (i - 1) % n )) -eq $k ] || continue
  name=$(basename $d)
  /verif/tools/sandbox.sh >/dev/null || exit 2
  git -C $SB/repo apply $d/patch.diff || { echo "$name: patch does not apply"; continue; }
  bad=""
  for p in C01 C02 C03 C04 C05 C06 C07 C08 C09 C10 C11 C12 C13 C14 C15 C16 C17 C18 C19; do
    out=$($SB/verif/check $p quick 2>&1); rc=$?
    if [ $rc -ne 0 ]; then bad="$bad $p(rc=$rc)"; echo "$out" | grep -E "VIOLATION|INCONCLUSIVE|signature" | head -3; fi
  done
  git -C $SB/repo checkout -- .
  echo "$name: ${bad:-silent}"
done
