#!/bin/bash
# tools/thorough_all.sh [seed] [props...] : run thorough checks with timing (for vp run)
seed=${1:-0}; shift
props=${@:-C01 C02 C03 C04 C05 C06 C07 C08 C09 C10 C11 C12 C13 C14 C15 C16 C17 C18 C19}
here="$(cd "$(dirname "$0")/.." && pwd)"
# snapshot runs (vp run) live elsewhere: the harness finds the repository through ../../repo
[ -e "$here/../repo" ] || ln -s /repo "$here/../repo"
for p in $props; do
  s=$(date +%s)
  out=$(VERIF_SEED=$seed "$here/check" $p thorough 2>&1); rc=$?
  e=$(date +%s)
  echo "== $p rc=$rc $((e-s))s"; echo "$out" | tail -4
done
