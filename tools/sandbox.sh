#!/bin/bash
# tools/sandbox.sh : create / refresh the relocatable scratch sandbox /tmp/sb
#   /tmp/sb/repo  = git worktree of /repo at its HEAD (clean)
#   /tmp/sb/verif = copy of /verif's working tree (without build output, out/, evidence/)
# Mutants are applied to /tmp/sb/repo and checked with /tmp/sb/verif/check, so /repo itself and
# /verif/evidence stay untouched. Remove with: tools/sandbox.sh --remove
SB=${SB_DIR:-/tmp/sb}
if [ "$1" = "--remove" ]; then
  git -C /repo worktree remove --force $SB/repo 2>/dev/null; rm -rf $SB; git -C /repo worktree prune; exit 0
fi
mkdir -p $SB
head=$(git -C /repo rev-parse HEAD)
if [ ! -d $SB/repo ]; then git -C /repo worktree add -q --detach $SB/repo $head || exit 1; fi
git -C $SB/repo checkout -q -- . && git -C $SB/repo clean -fdq -e target && git -C $SB/repo checkout -q --detach $head
# SANDBOX_NOSYNC=1: keep the copy of /verif made earlier (long background runs are then independent of edits)
[ -n "$SANDBOX_NOSYNC" ] && [ -d $SB/verif ] || rsync -a --delete --exclude target --exclude 'target-*' --exclude /out --exclude /evidence --exclude .git /verif/ $SB/verif/
mkdir -p $SB/verif/out $SB/verif/evidence
echo "sandbox ready at $SB (repo $head)"
