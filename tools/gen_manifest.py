#!/usr/bin/env python3
"""Writes /verif/MANIFEST.json from the table below (kept in one place so that the manifest
stays valid while checks are added)."""
import json, os, subprocess
V = os.path.abspath(os.path.join(os.path.dirname(__file__), '..'))

# id -> (technique, level text, level note, design ref)
CHECKS = {
 "C01": ("PBT (proptest): differential against a transliterated Blackman-Vigna reference model, output word and successor state",
         "Generated-input search: for each of the 15 generators, thousands of seeds from edge-biased classes and step counts; every output and the successor state are compared with an independent transliteration of the published C sources. Faults in this branch-free word arithmetic are dense, so a surviving fault would have to be confined to a vanishing set of states.",
         "Trusts refmodel::vigna (validated at start-up against the published vectors and an independent Python model) and the crate's own == for the successor-state comparison.", "3/C01"),
}
NOT_YET = "check not built yet (work in progress; see DESIGN.md section 10 for the order of work)"

props = [json.loads(l) for l in open(os.path.join(V, 'properties.jsonl'))]
checks, na = [], []
for p in props:
    i = p['id']
    if i in CHECKS:
        tech, text, note, ref = CHECKS[i]
        checks.append({
            "property_id": i,
            "quick_cmd": f"./check {i} quick",
            "thorough_cmd": f"./check {i} thorough",
            "evidence_file": f"evidence/{i}.json",
            "replay_cmd_template": f"./check {i} quick --replay {{path}}",
            "engine": "vcheck",
            "level_claimed": {"category": "exploration", "text": text, "design_ref": f"DESIGN.md section {ref}"},
            "level_note": note,
            "technique": tech,
        })
    else:
        na.append({"property_id": i, "reason": NOT_YET})

hook_commits = []
try:
    out = subprocess.run(["git", "-C", "/repo", "log", "--format=%H %s"], capture_output=True, text=True).stdout
    hook_commits = [l.split()[0] for l in out.splitlines() if ' hook:' in l or l.split(' ', 1)[1].startswith('hook')]
except Exception:
    pass

m = {
 "version": 1,
 "setup_cmd": "./setup.sh",
 "hooks": {
   "guard": "cfg(rngs_verif)",
   "enable": "RUSTFLAGS=\"--cfg rngs_verif\" (exported by ./check and ./setup.sh for every harness build; path dependencies on ../../repo/rand_*)",
   "baseline_off_cmd": "cd /repo && cargo test --workspace --no-fail-fast --offline",
   "source_commits": hook_commits,
   "add_only": True,
 },
 "engines": [
   {"name": "vcheck", "path": "harness/", "serves_properties": [c["property_id"] for c in checks],
    "kind_free_text": "proptest 1.11 driven from a binary (fixed RNG seed from VERIF_SEED, shrinking, JSON replay files), reference models in harness/src/refmodel, GF(2) toolkit, scripted timers/sources"},
 ],
 "checks": checks,
 "not_applicable": na,
 "notes": "All checks rebuild the harness against /repo's working tree through cargo path dependencies. exit 0 = held, 1 = VIOLATION, 2 = inconclusive (never on the unchanged tree). Known findings: known_findings.txt.",
}
json.dump(m, open(os.path.join(V, 'MANIFEST.json'), 'w'), indent=1)
print("checks:", len(checks), "not_applicable:", len(na))
