#!/usr/bin/env python3
"""Writes /verif/MANIFEST.json from the table below (kept in one place so that the manifest
stays valid while checks are added)."""
import json, os, subprocess
V = os.path.abspath(os.path.join(os.path.dirname(__file__), '..'))

# id -> (technique, level text, level note, design ref)
CHECKS = {
 "C01": ("PBT (proptest): differential against a transliterated Blackman-Vigna reference model (output word and successor state); structured seeds, preimages of structured target states, stage-structured SplitMix64 counters",
         "Generated-input search: for each of the 15 generators thousands of seeds from edge-biased classes and step counts; every output and the successor state are compared with an independent transliteration of the published C sources. Faults in this branch-free word arithmetic are dense in the input space; a fault confined to a vanishing set of states would be missed.",
         "Trusts refmodel::vigna (validated at start-up against the published vectors and an independent Python model) and the crate's == for the successor-state comparison.", "3/C01"),
 "C02": ("PBT (proptest): differential against a spec-level HC-128 model (array form, no unrolling), two routes (Rng, Core::generate)",
         "Generated 32-byte seeds (incl. one non-zero byte at every position, key-only/IV-only, distinct words) x depths across P/Q phases, buffer refills and table wraps; every keystream word compared with Wu's specification.",
         "Trusts refmodel::hc128 (validated on the three vectors of the paper and 2200-word streams of the Python model).", "3/C02"),
 "C03": ("PBT (proptest): differential against a transliteration of Jenkins' rand.c / isaac64.c, two routes (Rng, Core::generate)",
         "Generated seeds and seed_from_u64(0) x depths over >= 3 blocks so every block index and several refills are compared word by word.",
         "Trusts refmodel::isaac (constants mixed at run time; validated against crate vectors and the Python model).", "3/C03"),
 "C04": ("PBT (proptest): differential against Marsaglia's xor128 (outputs and state); preimages of structured states; stateful mixed-call histories (next_u32 / next_u64 / fill_bytes) with state comparison after every call",
         "Generated non-zero seeds x step counts, every next_u32 and the successor state compared with xor128; histories of all three output calls with every value and the state after every call compared with xor128.",
         "Trusts the 6-line xor128 model and the crate's ==.", "3/C04"),
 "C05": ("PBT (proptest), stateful: random and block-boundary-focused operation histories (incl. >= 64 KiB fills, unaligned destinations) vs a projection model fed by a native-width twin; libFuzzer target fz_hist (thorough)",
         "Histories of next_u32/next_u64/fill_bytes(n) from every buffer index for 19 types + scripted JitterRng; each returned value is predicted from the twin's native word stream by projection rules written from the statement; final re-synchronisation catches skipped/repeated words.",
         "The native stream comes from a twin instance of the same type (construction determinism is C10/C19's subject). An empty fill_bytes ends the 'immediately following next_u32' window of Isaac64Rng (a call of a block generator) and is no call at all for the composition-defined generators (JitterRng keeps its half).", "4/C05"),
 "C06": ("PBT (proptest) + GF(2) algebra: jump()/long_jump() vs T^(2^(n/2)), T^(2^(3n/4)) with T extracted from the running code; all basis states + generated states + preimages of structured targets, linearity, metamorphic commutation",
         "The step matrix T is read off the real code on the n basis states; J and L by repeated squaring; jump/long_jump are executed on all basis states and on generated states and must land on J*s / L*s; linearity of jump on generated pairs extends the basis result to all states; model-free commutation relations in addition.",
         "Assumes GF(2)-linearity of next and jump outside the sampled states (BLR-sampled); state observation through validated serde images.", "5/C06"),
 "C07": ("PBT (proptest) + GF(2) algebra: extracted step matrix, rank, Berlekamp-Massey minimal polynomial of real state sequences, primitivity via the full factorisation of 2^n-1; cycle probes; API-seeded generators never in the zero state",
         "Generated states validate that the code's step is the linear map T (linearity, agreement, T^k vs k real steps); rank n gives bijectivity; a degree-n primitive minimal polynomial gives a single cycle of length 2^n-1 on the non-zero states. Thorough adds the independent matrix-order route. The consequence for users (every public constructor with hostile inputs: never the zero state, never back at the start within the first steps) is checked directly.",
         "Assumes linearity outside the sampled states and primality of the 13 hard-coded factors (products verified at start-up).", "5/C07"),
 "C08": ("PBT (proptest): validity predicates over every constructor with zero/near-zero seeds, special u64s and zero-block sources; near-equal seed pairs",
         "Every seeding path of the 15 linear types with hostile inputs: result != zero-state generator, documented replacement, verbatim use, zero blocks remapped/redrawn with exact byte accounting, distinct seeds give != generators.",
         "Zero-state generator and state images through the public serde implementations.", "5/C08"),
 "C09": ("PBT (proptest) with fault injection: seeding routes vs independently computed documented expansions; byte-scripted, method-inconsistent, real-generator and failing sources with exact byte accounting",
         "seed_from_u64 for generated x against SplitMix64/PCG32/ISAAC-key models; from_rng/try_from_rng against the model built from exactly the bytes handed out with exact byte counts; failing sources at every position must propagate exactly their error.",
         "Expansion models are independent re-implementations of the documented schemes.", "5/C09"),
 "C10": ("PBT (proptest), stateful: clone / clone_from / == congruence over histories, near-equal and serde-crafted pairs (every field, all 1- and 2-bit seed differences enumerated), Hc128 position clause, public cores",
         "clone == original and identical futures incl. jumps; for pairs built to be (nearly) equal: a == b implies identical continuation and preserved equality; Hc128Rng at different positions of a block must be !=.",
         "Crafted states avoid BlockRng's index/half_used bookkeeping (states no generator can serialize).", "4/C10"),
 "C11": ("PBT (proptest), stateful round-trip: serde snapshot (bincode; JSON through from_str, from_reader and Value) at generated points vs original vs never-serialized twin",
         "Snapshot at every buffer index / half-used state / after jumps; restored, original and twin must agree on a generated continuation that crosses refills; restored == original.",
         "Two serde back-ends (bincode, serde_json).", "4/C11"),
 "C12": ("PBT (proptest), stateful: JitterRng over scripted timers (reading- and measurement-level programs, hostile deltas, long stuck runs, result-, relation- and intermediate-stage-targeted pools via the hook) vs a spec-level Jitterentropy 2.1.0 model (values and timer-read counts); libFuzzer target fz_jitter (thorough)",
         "The harness owns the timer: delta programs incl. stuck patterns and hostile deltas x histories of all public calls; value and cumulative read count compared after every call.",
         "Trusts refmodel::jitter (written from the documentation in feedback form; validated against the Python model).", "6/C12"),
 "C13": ("PBT (proptest): constructive 400-probe timers aimed at every decision boundary vs a validity predicate; libFuzzer target fz_timer (thorough)",
         "Timers are constructed to hit every mean 0..40, 2^k+-1 and each failure class around its threshold; the outcome must satisfy the statement's predicate (Ok only if no condition holds, 1<=r<=128, r*bitlen(mean)>=128, set_rounds(r) ok; Err only naming a condition that holds).",
         "mean is accepted with or without the priming term; zeros are injected only at inspected readings.", "6/C13"),
 "C14": ("PBT (proptest) crash oracle in an overflow-checked build (catch_unwind + recording panic hook); libFuzzer targets with ASan (thorough)",
         "All generators, constructors, sources, hostile lengths/histories/timers executed with overflow checks and debug assertions on; any panic outside the harness is a violation keyed on (message, file).",
         "Build profile of the harness has overflow-checks and debug-assertions on; set_rounds(0) excluded by construction.", "4/C14"),
 "C15": ("PBT (proptest) + GF(2) algebra through cfg(rngs_verif) hooks: affinity triples, rank of extracted 64x64 maps (fold, stir, collection, var-rounds fold, test_timer run, generated API history), special points, differential / birthday / orbit-related collision search",
         "Fold (in pool and in time), stir and whole collections observed on the real code; affine + rank 64 decides bijectivity; model-free collision searches (differentials, birthday, inputs related by the step's own building blocks) cover non-affine redesigns; the fold is also observed with variable loop counts. Only an executed collision is reported.",
         "Assumes affinity outside sampled triples; hooks only read/set the pool and call the private stir.", "5/C15"),
 "C16": ("PBT (proptest), stateful with fault injection: twin relations R1-R3 and read-count bookkeeping R4 over histories with clone / clone_from on scripted timers, incl. a timer that panics once at a generated reading",
         "u32;u32 == halves of u64 with zero reads in the second call; a pending half never influences a later output; a clone's first output is a fresh collection; every needed collection reads the timer >= rounds times.",
         "fill(n<=4) after next_u32 takes the pending half (composition rule).", "6/C16"),
 "C17": ("PBT (proptest): differential Debug text between different seeds under the same history, position-keyed over time, serde-crafted states, JitterRng pairs over different API histories / rounds / preset pools + token scan for state/output words",
         "Pairs of generators with different seeds/timers and the same history must print identical {:?}/{:#?} after every operation; no numeric token may equal a state, buffered or recent output word >= 2^20.",
         "The text is not pinned; buffered words observed as upcoming outputs of a clone.", "4/C17"),
 "C18": ("cross-configuration differential: one proptest-generated corpus replayed by vdigest built in {O0,O3} x {checks on,off} x {optional features (serde; rand_jitter std+log) on,off}",
         "6900 (thorough 69000) generated cases over all generator types, cores and scripted JitterRng replayed in 4 (8) build configurations; digests must agree line by line; a disagreement is delta-debugged with the two binaries as oracle.",
         "Only x86-64 is buildable here.", "6/C18"),
 "C19": ("PBT (proptest) with a harness-owned scheduler over real OS threads + unsynchronised parallel runs + fresh-process solo and scenario traces (JitterRng through its whole API incl. rejected timers) + enumerated 1-/2-bit seed pairs + same-key constructor pairs, cross-type pairs, nested and barrier-synchronised parallel construction + jump-heavy same-type histories (also against an opt-level-0 build of the crates) + compiled Send/Sync probe",
         "Generated multi-instance scenarios with generated interleavings and thread migrations; every instance's trace must equal its solo replay before and after; free-running parallel groups; static Send+Sync assertions compiled against the tree.",
         "Interleavings inside one operation are not enumerated; JITTER_ROUNDS is outside the deterministic oracle.", "4/C19"),
}
NOT_YET = "check not built yet (work in progress; see DESIGN.md section 10 for the order of work)"

props = [json.loads(l) for l in open(os.path.join(V, 'properties.jsonl'))]
checks, na = [], []
for p in props:
    i = p['id']
    if i in CHECKS:
        tech, text, note, ref = CHECKS[i]
        checks.append({
            "property_id": i,
            "quick_cmd": f"./check {i} quick",
            "thorough_cmd": f"./check {i} thorough",
            "evidence_file": f"evidence/{i}.json",
            "replay_cmd_template": f"./check {i} quick --replay {{path}}",
            "engine": "vcheck",
            "level_claimed": {"category": "exploration", "text": text, "design_ref": f"DESIGN.md section {ref}"},
            "level_note": note,
            "technique": tech,
        })
    else:
        na.append({"property_id": i, "reason": NOT_YET})

hook_commits = []
try:
    out = subprocess.run(["git", "-C", "/repo", "log", "--format=%H %s"], capture_output=True, text=True).stdout
    hook_commits = [l.split()[0] for l in out.splitlines() if ' hook:' in l or l.split(' ', 1)[1].startswith('hook')]
except Exception:
    pass

m = {
 "version": 1,
 "setup_cmd": "./setup.sh",
 "hooks": {
   "guard": "cfg(rngs_verif)",
   "enable": "RUSTFLAGS=\"--cfg rngs_verif\" (exported by ./check and ./setup.sh for every harness build; path dependencies on ../../repo/rand_*)",
   "baseline_off_cmd": "cd /repo && cargo test --workspace --no-fail-fast --offline",
   "source_commits": hook_commits,
   "add_only": True,
 },
 "engines": [
   {"name": "vcheck", "path": "harness/", "serves_properties": [c["property_id"] for c in checks],
    "kind_free_text": "proptest 1.11 driven from a binary (fixed RNG seed from VERIF_SEED, shrinking, JSON replay files), reference models in harness/src/refmodel, GF(2) toolkit, scripted timers/sources"},
   {"name": "vdigest", "path": "harness/vdigest/", "serves_properties": ["C18"],
    "kind_free_text": "corpus replayer built in 8 profile/feature configurations; digests compared by vcheck"},
   {"name": "sendsync_probe", "path": "harness/sendsync_probe/", "serves_properties": ["C19"],
    "kind_free_text": "static Send/Sync assertions compiled against the current tree"},
 ],
 "checks": checks,
 "not_applicable": na,
 "notes": "All checks rebuild the harness against /repo's working tree through cargo path dependencies. exit 0 = held, 1 = VIOLATION, 2 = inconclusive (never on the unchanged tree). Known findings: known_findings.txt.",
}
json.dump(m, open(os.path.join(V, 'MANIFEST.json'), 'w'), indent=1)
print("checks:", len(checks), "not_applicable:", len(na))
