#!/usr/bin/env python3
"""Collects shrunk failing cases found while running the checks against seeded changes (in the
sandbox) into /verif/replays/regress/<property>/ : at most 3 per (sub-check family, signature).
Every quick and thorough run replays them first (seconds); on the unchanged tree they all pass."""
import glob, json, os, re, collections
import sys
src = sys.argv[1] if len(sys.argv) > 1 else '/tmp/sb/verif/out/violations'
dst = '/verif/replays/regress'
seen = collections.Counter()
n = 0
for f in sorted(glob.glob(f'{src}/*.json')):
    try:
        v = json.load(open(f))
    except Exception:
        continue
    prop, sub, sig = v.get('property'), v.get('subcheck', ''), v.get('fail', {}).get('signature', '')
    if not prop or sub.startswith('static/') or sub.startswith('fuzz/'):
        continue
    if len(json.dumps(v['case'])) > 60_000:
        continue
    if 'R270000' in json.dumps(v['case']):   # giant (GiB) runs are thorough-tier material, not regression cases
        continue
    fam = re.sub(r'/\d+$', '', sub)
    key = (prop, fam, sig)
    if seen[key] >= 3:
        continue
    seen[key] += 1
    os.makedirs(f'{dst}/{prop}', exist_ok=True)
    out = {'property': prop, 'subcheck': sub, 'case': v['case'], 'found_with_signature': sig}
    name = os.path.basename(f)
    json.dump(out, open(f'{dst}/{prop}/{name}', 'w'))
    n += 1
print("kept", n, "cases;", len(seen), "distinct (property, sub-check, signature) keys")
