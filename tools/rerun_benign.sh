#!/bin/bash
# re-run all stored benign patches (negative controls) against all quick checks in the sandbox
for d in /verif/seeded/benign-*/; do
  n=$(basename $d)
  /verif/tools/sandbox.sh >/dev/null || exit 2
  git -C /tmp/sb/repo apply $d/patch.diff || { echo "$n: patch does not apply"; continue; }
  bad=""
  for p in C01 C02 C03 C04 C05 C06 C07 C08 C09 C10 C11 C12 C13 C14 C15 C16 C17 C18 C19; do
    out=$(/tmp/sb/verif/check $p quick 2>&1); rc=$?
    if [ $rc -ne 0 ]; then bad="$bad $p(rc=$rc)"; echo "$out" | grep -E "VIOLATION|INCONCLUSIVE|signature" | head -3; fi
  done
  git -C /tmp/sb/repo checkout -- .
  echo "$n: ${bad:-silent}"
done
