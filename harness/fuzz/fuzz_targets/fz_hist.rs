#![no_main]
use libfuzzer_sys::fuzz_target;

// Byte-level, coverage-guided entry for the shared oracles (see harness/src/fuzzdec.rs).
// VERIF_PROP selects which property's oracle is armed; every input is also a crash probe.
fuzz_target!(|data: &[u8]| {
    rngs_verif::fuzzdec::run_hist(data);
});
