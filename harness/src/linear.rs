//! The extracted linear model of a generator type: the GF(2) matrix T of one `next` call,
//! obtained by executing the real code on the n basis states (n executions), and the matrices
//! J = T^(2^(n/2)), L = T^(2^(3n/4)) by repeated squaring. Cached per type and process.

use crate::adapter::{self, Gen, Ty};
use crate::gf2::{Bits, Matrix};
use std::collections::HashMap;
use std::sync::{Arc, Mutex, OnceLock};

/// Build a generator in the given (non-zero) state through `from_seed`.
pub fn gen_in_state(ty: Ty, s: &Bits) -> Box<dyn Gen> {
    let info = ty.info();
    let bytes = s.to_bytes(info.seed_len);
    if s.is_zero() {
        adapter::from_state_bytes(ty, &bytes).expect("zero state through Deserialize")
    } else {
        adapter::from_seed(ty, &bytes)
    }
}

/// validated state observation
pub fn state_of(g: &dyn Gen) -> Result<Bits, String> {
    adapter::observe_state(g).map(|b| Bits::from_bytes(&b)).ok_or_else(|| "state observation unavailable (serde image not validated by from_seed(image) == g)".to_string())
}

/// one real step from state s
pub fn step(ty: Ty, s: &Bits) -> Result<Bits, String> {
    let mut g = gen_in_state(ty, s);
    g.next_native();
    state_of(&*g)
}

pub fn jump(ty: Ty, s: &Bits, long: bool) -> Result<Bits, String> {
    let mut g = gen_in_state(ty, s);
    if long {
        g.long_jump();
    } else {
        g.jump();
    }
    state_of(&*g)
}

#[derive(Clone)]
pub struct LinModel {
    pub ty: Ty,
    pub n: usize,
    pub t: Arc<Matrix>,
}

type Cache<T> = OnceLock<Mutex<HashMap<Ty, Arc<OnceLock<Result<T, String>>>>>>;
static T_CACHE: Cache<LinModel> = OnceLock::new();
static J_CACHE: Cache<(Arc<Matrix>, Arc<Matrix>)> = OnceLock::new();

fn cell<T>(cache: &'static Cache<T>, ty: Ty) -> Arc<OnceLock<Result<T, String>>> {
    let m = cache.get_or_init(|| Mutex::new(HashMap::new()));
    m.lock().unwrap().entry(ty).or_default().clone()
}

/// T of this build of this tree (n executions of the real step on the basis states)
pub fn model(ty: Ty) -> Result<LinModel, String> {
    let c = cell(&T_CACHE, ty);
    c.get_or_init(|| {
        let n = ty.info().nbits;
        let mut cols = Vec::with_capacity(n);
        for i in 0..n {
            cols.push(step(ty, &Bits::unit(i))?);
        }
        Ok(LinModel { ty, n, t: Arc::new(Matrix { n, cols }) })
    })
    .clone()
}

/// (J, L) = (T^(2^(n/2)), T^(2^(3n/4)))
pub fn jump_matrices(ty: Ty) -> Result<(Arc<Matrix>, Arc<Matrix>), String> {
    let c = cell(&J_CACHE, ty);
    c.get_or_init(|| {
        let m = model(ty)?;
        let j = m.t.pow2k(m.n / 2);
        let l = j.pow2k(m.n / 4);
        Ok((Arc::new(j), Arc::new(l)))
    })
    .clone()
}
