//! The extracted linear model of a generator type: the GF(2) matrix T of one `next` call,
//! obtained by executing the real code on the n basis states (n executions), and the matrices
//! J = T^(2^(n/2)), L = T^(2^(3n/4)) by repeated squaring. Cached per type and process.

use crate::adapter::{self, Gen, Ty};
use crate::gf2::{Bits, Matrix};
use std::collections::HashMap;
use std::sync::{Arc, Mutex, OnceLock};

/// Build a generator in the given state through the public `Deserialize` implementation (so
/// that the step / jump properties do not depend on how `from_seed` decodes or remaps seeds —
/// that is C01's and C08's subject).
pub fn gen_in_state(ty: Ty, s: &Bits) -> Box<dyn Gen> {
    try_gen_in_state(ty, s).expect("state through Deserialize")
}

/// `None` if `Deserialize` refuses the state. The all-zero state is the one state an
/// implementation may legitimately refuse (no generator built through the API is ever in it);
/// callers that need it treat a refusal as "not constructible, nothing to observe".
pub fn try_gen_in_state(ty: Ty, s: &Bits) -> Option<Box<dyn Gen>> {
    let info = ty.info();
    let bytes = s.to_bytes(info.seed_len);
    adapter::from_state_bytes(ty, &bytes)
}

/// state observation: the serde image, validated by the round trip Deserialize(image) == g
pub fn state_of(g: &dyn Gen) -> Result<Bits, String> {
    let info = g.ty().info();
    let img = g.bincode().ok_or("no serde image")?;
    if img.len() != info.seed_len {
        return Err(format!("serde image has {} bytes, expected {}", img.len(), info.seed_len));
    }
    let back = adapter::from_state_bytes(g.ty(), &img).ok_or("serde image does not deserialize")?;
    if back.eq_dyn(g) != Some(true) {
        return Err("state observation unavailable (Deserialize(Serialize(g)) != g)".to_string());
    }
    Ok(Bits::from_bytes(&img))
}

/// one real step from state s
pub fn step(ty: Ty, s: &Bits) -> Result<Bits, String> {
    let mut g = try_gen_in_state(ty, s).ok_or("state not constructible through Deserialize")?;
    g.next_native();
    state_of(&*g)
}

pub fn jump(ty: Ty, s: &Bits, long: bool) -> Result<Bits, String> {
    let mut g = try_gen_in_state(ty, s).ok_or("state not constructible through Deserialize")?;
    if long {
        g.long_jump();
    } else {
        g.jump();
    }
    state_of(&*g)
}

#[derive(Clone)]
pub struct LinModel {
    pub ty: Ty,
    pub n: usize,
    pub t: Arc<Matrix>,
}

type Cache<T> = OnceLock<Mutex<HashMap<Ty, Arc<OnceLock<Result<T, String>>>>>>;
static T_CACHE: Cache<LinModel> = OnceLock::new();
static J_CACHE: Cache<(Arc<Matrix>, Arc<Matrix>)> = OnceLock::new();

fn cell<T>(cache: &'static Cache<T>, ty: Ty) -> Arc<OnceLock<Result<T, String>>> {
    let m = cache.get_or_init(|| Mutex::new(HashMap::new()));
    m.lock().unwrap().entry(ty).or_default().clone()
}

/// T of this build of this tree (n executions of the real step on the basis states)
pub fn model(ty: Ty) -> Result<LinModel, String> {
    let c = cell(&T_CACHE, ty);
    c.get_or_init(|| {
        let n = ty.info().nbits;
        let mut cols = Vec::with_capacity(n);
        for i in 0..n {
            cols.push(step(ty, &Bits::unit(i))?);
        }
        Ok(LinModel { ty, n, t: Arc::new(Matrix { n, cols }) })
    })
    .clone()
}

static TINV_CACHE: Cache<Arc<Matrix>> = OnceLock::new();
static JINV_CACHE: Cache<(Arc<Matrix>, Arc<Matrix>)> = OnceLock::new();

/// T^-1 (Err if T is singular — C07 reports that)
pub fn model_inverse(ty: Ty) -> Result<Arc<Matrix>, String> {
    let c = cell(&TINV_CACHE, ty);
    c.get_or_init(|| {
        let m = model(ty)?;
        m.t.inverse().map(Arc::new).ok_or_else(|| "step matrix is singular".to_string())
    })
    .clone()
}

/// (J^-1, L^-1)
pub fn jump_inverses(ty: Ty) -> Result<(Arc<Matrix>, Arc<Matrix>), String> {
    let c = cell(&JINV_CACHE, ty);
    c.get_or_init(|| {
        let (j, l) = jump_matrices(ty)?;
        match (j.inverse(), l.inverse()) {
            (Some(a), Some(b)) => Ok((Arc::new(a), Arc::new(b))),
            _ => Err("jump matrix is singular".to_string()),
        }
    })
    .clone()
}

/// (J, L) = (T^(2^(n/2)), T^(2^(3n/4)))
pub fn jump_matrices(ty: Ty) -> Result<(Arc<Matrix>, Arc<Matrix>), String> {
    let c = cell(&J_CACHE, ty);
    c.get_or_init(|| {
        let m = model(ty)?;
        let j = m.t.pow2k(m.n / 2);
        let l = j.pow2k(m.n / 4);
        Ok((Arc::new(j), Arc::new(l)))
    })
    .clone()
}
