//! Byte-scripted source RNGs for the seeding properties (C08, C09, C14): they count every
//! byte handed out (whatever method is used), can start with all-zero blocks, and the fallible
//! variant fails with a recognisable error value at a chosen byte position.

use rand_core::{RngCore, TryRngCore};
use serde::{Deserialize, Serialize};

#[derive(Clone, Debug, PartialEq, Eq, Serialize, Deserialize)]
pub struct SrcSpec {
    /// explicit leading bytes (may be zeros)
    #[serde(with = "crate::hexser")]
    pub prefix: Vec<u8>,
    /// seed of the deterministic non-zero continuation
    pub salt: u64,
    /// the source's word methods (next_u32 / next_u64) deliver an unrelated stream of their own
    /// instead of the next bytes of the byte stream (RngCore does not promise consistency between
    /// the methods; the seeding contract names `fill_bytes`)
    #[serde(default)]
    pub words_differ: bool,
    /// if > 0: every call (fill_bytes or a word method) consumes a whole number of blocks of this
    /// many bytes and discards the rest of the last one — the way the block generators discard the
    /// rest of a word. One request of a multiple of the block size is unaffected; the same bytes
    /// requested in several smaller calls are a different stream
    #[serde(default)]
    pub call_block: usize,
}

impl SrcSpec {
    pub fn byte_at(&self, i: usize) -> u8 {
        if i < self.prefix.len() {
            self.prefix[i]
        } else {
            // never delivers zeros forever: a keyed byte sequence
            let k = (i - self.prefix.len()) as u64;
            let mut z = k.wrapping_add(self.salt).wrapping_mul(0x9e3779b97f4a7c15);
            z = (z ^ (z >> 29)).wrapping_mul(0xbf58476d1ce4e5b9);
            let b = (z >> 32) as u8;
            if b == 0 {
                0xA7
            } else {
                b
            }
        }
    }
    pub fn bytes(&self, from: usize, n: usize) -> Vec<u8> {
        (from..from + n).map(|i| self.byte_at(i)).collect()
    }
    /// k-th value of the separate word stream
    pub fn word_at(&self, k: usize) -> u64 {
        let mut z = (k as u64).wrapping_add(self.salt ^ 0x5bd1e995_9e3779b9).wrapping_mul(0xd6e8feb86659fd93);
        z ^= z >> 32;
        z.wrapping_mul(0xd6e8feb86659fd93) | 1
    }
}

/// infallible counting source
pub struct ByteSrc {
    pub spec: SrcSpec,
    pub pos: usize,
    pub word_pos: usize,
    pub calls: Vec<(&'static str, usize)>,
}

impl ByteSrc {
    pub fn new(spec: SrcSpec) -> ByteSrc {
        ByteSrc { spec, pos: 0, word_pos: 0, calls: Vec::new() }
    }
    fn take(&mut self, n: usize) -> Vec<u8> {
        let v = self.spec.bytes(self.pos, n);
        self.pos += n;
        let b = self.spec.call_block;
        if b > 0 && self.pos % b != 0 {
            self.pos += b - self.pos % b;
        }
        v
    }
}

impl RngCore for ByteSrc {
    fn next_u32(&mut self) -> u32 {
        self.calls.push(("next_u32", 4));
        if self.spec.words_differ {
            self.word_pos += 1;
            return self.spec.word_at(self.word_pos - 1) as u32;
        }
        let b = self.take(4);
        u32::from_le_bytes([b[0], b[1], b[2], b[3]])
    }
    fn next_u64(&mut self) -> u64 {
        self.calls.push(("next_u64", 8));
        if self.spec.words_differ {
            self.word_pos += 1;
            return self.spec.word_at(self.word_pos - 1);
        }
        let b = self.take(8);
        u64::from_le_bytes([b[0], b[1], b[2], b[3], b[4], b[5], b[6], b[7]])
    }
    fn fill_bytes(&mut self, dest: &mut [u8]) {
        self.calls.push(("fill_bytes", dest.len()));
        let b = self.take(dest.len());
        dest.copy_from_slice(&b);
    }
}

/// error value carried by `FailSrc`
#[derive(Clone, Copy, Debug, PartialEq, Eq)]
pub struct SrcErr(pub u64);
impl core::fmt::Display for SrcErr {
    fn fmt(&self, f: &mut core::fmt::Formatter) -> core::fmt::Result {
        write!(f, "SrcErr({})", self.0)
    }
}
impl std::error::Error for SrcErr {}

/// fallible counting source: any call that would hand out byte number `fail_at` (0-based) or
/// beyond fails with `SrcErr(token)` and hands out nothing.
pub struct FailSrc {
    pub spec: SrcSpec,
    pub pos: usize,
    pub word_pos: usize,
    pub fail_at: Option<usize>,
    pub token: u64,
    pub failed_calls: usize,
}

impl FailSrc {
    pub fn new(spec: SrcSpec, fail_at: Option<usize>, token: u64) -> FailSrc {
        FailSrc { spec, pos: 0, word_pos: 0, fail_at, token, failed_calls: 0 }
    }
    fn take(&mut self, n: usize) -> Result<Vec<u8>, SrcErr> {
        if let Some(f) = self.fail_at {
            if self.pos + n > f {
                self.failed_calls += 1;
                return Err(SrcErr(self.token));
            }
        }
        let v = self.spec.bytes(self.pos, n);
        self.pos += n;
        let b = self.spec.call_block;
        if b > 0 && self.pos % b != 0 {
            self.pos += b - self.pos % b;
        }
        Ok(v)
    }
}

impl TryRngCore for FailSrc {
    type Error = SrcErr;
    fn try_next_u32(&mut self) -> Result<u32, SrcErr> {
        if self.spec.words_differ {
            self.word_pos += 1;
            return Ok(self.spec.word_at(self.word_pos - 1) as u32);
        }
        let b = self.take(4)?;
        Ok(u32::from_le_bytes([b[0], b[1], b[2], b[3]]))
    }
    fn try_next_u64(&mut self) -> Result<u64, SrcErr> {
        if self.spec.words_differ {
            self.word_pos += 1;
            return Ok(self.spec.word_at(self.word_pos - 1));
        }
        let b = self.take(8)?;
        Ok(u64::from_le_bytes([b[0], b[1], b[2], b[3], b[4], b[5], b[6], b[7]]))
    }
    fn try_fill_bytes(&mut self, dest: &mut [u8]) -> Result<(), SrcErr> {
        let b = self.take(dest.len())?;
        dest.copy_from_slice(&b);
        Ok(())
    }
}
