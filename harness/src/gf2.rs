//! GF(2) toolkit: bit vectors and matrices up to 512 bits, rank / kernel, Berlekamp–Massey,
//! polynomial arithmetic modulo a degree-n polynomial, and the complete factorisation of
//! 2^n - 1 for n in {64, 128, 256, 512} (Fermat numbers F0..F8).

#[derive(Clone, Copy, PartialEq, Eq, Debug, Hash)]
pub struct Bits(pub [u64; 8]);

impl Bits {
    pub const ZERO: Bits = Bits([0; 8]);
    pub fn unit(i: usize) -> Bits {
        let mut b = Bits::ZERO;
        b.0[i / 64] |= 1 << (i % 64);
        b
    }
    pub fn get(&self, i: usize) -> bool {
        (self.0[i / 64] >> (i % 64)) & 1 == 1
    }
    pub fn set(&mut self, i: usize) {
        self.0[i / 64] |= 1 << (i % 64);
    }
    pub fn xor(&self, o: &Bits) -> Bits {
        let mut r = *self;
        for k in 0..8 {
            r.0[k] ^= o.0[k];
        }
        r
    }
    pub fn is_zero(&self) -> bool {
        self.0.iter().all(|&w| w == 0)
    }
    pub fn weight(&self) -> u32 {
        self.0.iter().map(|w| w.count_ones()).sum()
    }
    /// bit i of the state = bit (i % 8) of byte (i / 8) (little-endian state bytes)
    pub fn from_bytes(b: &[u8]) -> Bits {
        let mut r = Bits::ZERO;
        for (i, byte) in b.iter().enumerate() {
            r.0[i / 8] |= (*byte as u64) << (8 * (i % 8));
        }
        r
    }
    pub fn to_bytes(&self, n_bytes: usize) -> Vec<u8> {
        (0..n_bytes).map(|i| (self.0[i / 8] >> (8 * (i % 8))) as u8).collect()
    }
}

/// linear map on n bits, stored as the images of the basis vectors
#[derive(Clone, PartialEq, Eq, Debug)]
pub struct Matrix {
    pub n: usize,
    pub cols: Vec<Bits>,
}

impl Matrix {
    pub fn identity(n: usize) -> Matrix {
        Matrix { n, cols: (0..n).map(Bits::unit).collect() }
    }
    pub fn apply(&self, v: &Bits) -> Bits {
        let mut r = Bits::ZERO;
        for k in 0..(self.n + 63) / 64 {
            let mut w = v.0[k];
            while w != 0 {
                let i = w.trailing_zeros() as usize;
                w &= w - 1;
                let c = &self.cols[64 * k + i];
                for j in 0..8 {
                    r.0[j] ^= c.0[j];
                }
            }
        }
        r
    }
    /// self ∘ other
    pub fn mul(&self, other: &Matrix) -> Matrix {
        Matrix { n: self.n, cols: other.cols.iter().map(|c| self.apply(c)).collect() }
    }
    pub fn square(&self) -> Matrix {
        self.mul(self)
    }
    /// self^(2^k)
    pub fn pow2k(&self, k: usize) -> Matrix {
        let mut m = self.clone();
        for _ in 0..k {
            m = m.square();
        }
        m
    }
    /// self^e for a multi-limb exponent (little-endian limbs)
    pub fn pow_limbs(&self, e: &[u64]) -> Matrix {
        let mut r = Matrix::identity(self.n);
        let nbits = 64 * e.len();
        let mut started = false;
        for i in (0..nbits).rev() {
            if started {
                r = r.square();
            }
            if (e[i / 64] >> (i % 64)) & 1 == 1 {
                r = if started { r.mul(self) } else { self.clone() };
                started = true;
            }
        }
        r
    }
    pub fn is_identity(&self) -> bool {
        self.cols.iter().enumerate().all(|(i, c)| *c == Bits::unit(i))
    }
    /// rank and, if deficient, a non-zero kernel vector k (self·k = 0)
    pub fn rank_kernel(&self) -> (usize, Option<Bits>) {
        // Gaussian elimination on the columns, tracking the combination of basis vectors
        let mut rows: Vec<(Bits, Bits)> = self.cols.iter().enumerate().map(|(i, c)| (*c, Bits::unit(i))).collect();
        let mut rank = 0;
        for bit in 0..self.n {
            if let Some(p) = (rank..rows.len()).find(|&r| rows[r].0.get(bit)) {
                rows.swap(rank, p);
                let (pv, pc) = rows[rank];
                for r in 0..rows.len() {
                    if r != rank && rows[r].0.get(bit) {
                        rows[r].0 = rows[r].0.xor(&pv);
                        rows[r].1 = rows[r].1.xor(&pc);
                    }
                }
                rank += 1;
            }
        }
        let kernel = rows.iter().find(|(v, c)| v.is_zero() && !c.is_zero()).map(|(_, c)| *c);
        (rank, kernel)
    }
    /// some x with self·x = target (None if the system is inconsistent)
    pub fn solve(&self, target: &Bits) -> Option<Bits> {
        // eliminate on the columns (images of basis vectors), tracking combinations
        let mut rows: Vec<(Bits, Bits)> = self.cols.iter().enumerate().map(|(i, c)| (*c, Bits::unit(i))).collect();
        let mut t = *target;
        let mut x = Bits::ZERO;
        let mut rank = 0;
        for bit in 0..self.n {
            if let Some(p) = (rank..rows.len()).find(|&r| rows[r].0.get(bit)) {
                rows.swap(rank, p);
                let (pv, pc) = rows[rank];
                for r in 0..rows.len() {
                    if r != rank && rows[r].0.get(bit) {
                        rows[r].0 = rows[r].0.xor(&pv);
                        rows[r].1 = rows[r].1.xor(&pc);
                    }
                }
                if t.get(bit) {
                    t = t.xor(&pv);
                    x = x.xor(&pc);
                }
                rank += 1;
            }
        }
        if t.is_zero() {
            Some(x)
        } else {
            None
        }
    }

    /// inverse (None if singular)
    pub fn inverse(&self) -> Option<Matrix> {
        let n = self.n;
        let mut rows: Vec<(Bits, Bits)> = self.cols.iter().enumerate().map(|(i, c)| (*c, Bits::unit(i))).collect();
        // after elimination: rows[r].0 = unit(bit_r), rows[r].1 = combination c with self·c = unit(bit_r)
        let mut rank = 0;
        for bit in 0..n {
            let p = (rank..n).find(|&r| rows[r].0.get(bit))?;
            rows.swap(rank, p);
            let (pv, pc) = rows[rank];
            for r in 0..n {
                if r != rank && rows[r].0.get(bit) {
                    rows[r].0 = rows[r].0.xor(&pv);
                    rows[r].1 = rows[r].1.xor(&pc);
                }
            }
            rank += 1;
        }
        // rows[bit] now maps unit(bit) -> preimage
        Some(Matrix { n, cols: (0..n).map(|b| rows[b].1).collect() })
    }
}

// ---------------------------------------------------------------------------------------------
// polynomials over GF(2), bit i = coefficient of x^i, up to degree 1100

#[derive(Clone, PartialEq, Eq, Debug)]
pub struct Poly(pub Vec<u64>);

impl Poly {
    pub fn zero() -> Poly {
        Poly(vec![0; 18])
    }
    pub fn one() -> Poly {
        let mut p = Poly::zero();
        p.0[0] = 1;
        p
    }
    pub fn x() -> Poly {
        let mut p = Poly::zero();
        p.0[0] = 2;
        p
    }
    pub fn get(&self, i: usize) -> bool {
        i / 64 < self.0.len() && (self.0[i / 64] >> (i % 64)) & 1 == 1
    }
    pub fn flip(&mut self, i: usize) {
        self.0[i / 64] ^= 1 << (i % 64);
    }
    pub fn degree(&self) -> Option<usize> {
        for k in (0..self.0.len()).rev() {
            if self.0[k] != 0 {
                return Some(64 * k + 63 - self.0[k].leading_zeros() as usize);
            }
        }
        None
    }
    pub fn xor_shifted(&mut self, o: &Poly, shift: usize) {
        let (ws, bs) = (shift / 64, shift % 64);
        for k in 0..o.0.len() {
            if o.0[k] == 0 {
                continue;
            }
            if k + ws < self.0.len() {
                self.0[k + ws] ^= o.0[k] << bs;
            }
            if bs > 0 && k + ws + 1 < self.0.len() {
                self.0[k + ws + 1] ^= o.0[k] >> (64 - bs);
            }
        }
    }
    fn shl1(&mut self) {
        let mut carry = 0;
        for w in self.0.iter_mut() {
            let nc = *w >> 63;
            *w = (*w << 1) | carry;
            carry = nc;
        }
    }
    /// a·b mod m (deg m = n, a and b reduced)
    pub fn mulmod(a: &Poly, b: &Poly, m: &Poly, n: usize) -> Poly {
        let mut r = Poly::zero();
        let db = match b.degree() {
            Some(d) => d,
            None => return r,
        };
        for i in (0..=db).rev() {
            r.shl1();
            if r.get(n) {
                r.xor_shifted(m, 0);
            }
            if b.get(i) {
                r.xor_shifted(a, 0);
            }
        }
        r
    }
    /// a^e mod m, exponent as little-endian limbs
    pub fn powmod(a: &Poly, e: &[u64], m: &Poly, n: usize) -> Poly {
        let mut r = Poly::one();
        let mut started = false;
        for i in (0..64 * e.len()).rev() {
            if started {
                r = Poly::mulmod(&r, &r, m, n);
            }
            if (e[i / 64] >> (i % 64)) & 1 == 1 {
                r = Poly::mulmod(&r, a, m, n);
                started = true;
            }
        }
        r
    }
    /// a^(2^k) mod m
    pub fn pow2k_mod(a: &Poly, k: usize, m: &Poly, n: usize) -> Poly {
        let mut r = a.clone();
        for _ in 0..k {
            r = Poly::mulmod(&r, &r, m, n);
        }
        r
    }
}

/// Berlekamp–Massey over GF(2): linear complexity L and connection polynomial
/// C(x) = 1 + c1 x + ... + cL x^L with s_i = sum_j c_j s_{i-j}.
pub fn berlekamp_massey(bits: &[bool]) -> (usize, Poly) {
    let mut c = Poly::one();
    let mut b = Poly::one();
    let mut l = 0usize;
    let mut m: isize = -1;
    for i in 0..bits.len() {
        let mut d = bits[i];
        for j in 1..=l {
            if c.get(j) && bits[i - j] {
                d = !d;
            }
        }
        if d {
            let t = c.clone();
            c.xor_shifted(&b, (i as isize - m) as usize);
            if 2 * l <= i {
                l = i + 1 - l;
                m = i as isize;
                b = t;
            }
        }
    }
    (l, c)
}

/// characteristic (reciprocal) polynomial of a connection polynomial of degree l
pub fn reciprocal(c: &Poly, l: usize) -> Poly {
    let mut r = Poly::zero();
    for i in 0..=l {
        if c.get(i) {
            r.flip(l - i);
        }
    }
    r
}

// ---------------------------------------------------------------------------------------------
// factorisation of 2^n - 1 = F0·F1·…·F(log2 n - 1)

fn dec_to_limbs(s: &str) -> Vec<u64> {
    let mut v: Vec<u64> = vec![0];
    for ch in s.chars() {
        let d = ch.to_digit(10).expect("digit") as u128;
        let mut carry = d;
        for w in v.iter_mut() {
            let t = (*w as u128) * 10 + carry;
            *w = t as u64;
            carry = t >> 64;
        }
        if carry > 0 {
            v.push(carry as u64);
        }
    }
    v
}

pub fn limbs_mul(a: &[u64], b: &[u64]) -> Vec<u64> {
    let mut r = vec![0u64; a.len() + b.len()];
    for (i, &x) in a.iter().enumerate() {
        let mut carry = 0u128;
        for (j, &y) in b.iter().enumerate() {
            let t = (x as u128) * (y as u128) + r[i + j] as u128 + carry;
            r[i + j] = t as u64;
            carry = t >> 64;
        }
        let mut k = i + b.len();
        while carry > 0 {
            let t = r[k] as u128 + carry;
            r[k] = t as u64;
            carry = t >> 64;
            k += 1;
        }
    }
    while r.len() > 1 && *r.last().unwrap() == 0 {
        r.pop();
    }
    r
}

/// prime factors of the Fermat numbers F0..F8 (decimal); primality checked at design time
/// with sympy (a stated assumption of C07); the products are verified at start-up.
const FERMAT_FACTORS: [&[&str]; 9] = [
    &["3"],
    &["5"],
    &["17"],
    &["257"],
    &["65537"],
    &["641", "6700417"],
    &["274177", "67280421310721"],
    &["59649589127497217", "5704689200685129054721"],
    &["1238926361552897", "93461639715357977769163558199606896584051237541638188580280321"],
];

/// the prime factors of 2^n - 1 (n a power of two, 2 <= n <= 512), each as little-endian limbs;
/// Err if the hard-coded list fails its product check
pub fn prime_factors_2n_minus_1(n: usize) -> Result<Vec<Vec<u64>>, String> {
    assert!(n.is_power_of_two() && (2..=512).contains(&n));
    let mut out = Vec::new();
    let mut k = 0;
    while (1usize << k) < n {
        let mut prod = vec![1u64];
        for f in FERMAT_FACTORS[k] {
            let l = dec_to_limbs(f);
            prod = limbs_mul(&prod, &l);
            out.push(l);
        }
        // F_k = 2^(2^k) + 1
        let bits = 1usize << k;
        let mut want = vec![0u64; bits / 64 + 1];
        want[bits / 64] |= 1 << (bits % 64);
        want[0] |= 1;
        while want.len() > 1 && *want.last().unwrap() == 0 {
            want.pop();
        }
        if prod != want {
            return Err(format!("factor list of F{} does not multiply to 2^{}+1", k, bits));
        }
        k += 1;
    }
    Ok(out)
}

/// Is the degree-n polynomial m primitive? Returns Err(description) naming the failed condition.
pub fn check_primitive(m: &Poly, n: usize) -> Result<(), String> {
    if m.degree() != Some(n) {
        return Err(format!("degree {:?} != {}", m.degree(), n));
    }
    if !m.get(0) {
        return Err("constant term is 0 (x divides the polynomial: the map is singular)".into());
    }
    let x = Poly::x();
    // x^(2^n) == x  <=>  x^(2^n - 1) == 1 (x is invertible because m(0) = 1)
    let xq = Poly::pow2k_mod(&x, n, m, n);
    if xq != x {
        return Err(format!("x^(2^{}-1) != 1 mod m: the order of the step does not divide 2^{}-1", n, n));
    }
    let primes = prime_factors_2n_minus_1(n)?;
    for (pi, _p) in primes.iter().enumerate() {
        // x^((2^n-1)/p) = x^(product of the other primes)
        let mut y = x.clone();
        for (qi, q) in primes.iter().enumerate() {
            if qi != pi {
                y = Poly::powmod(&y, q, m, n);
            }
        }
        if y == Poly::one() {
            return Err(format!("x^((2^{}-1)/p) == 1 for prime factor #{}: the period is a proper divisor of 2^{}-1", n, pi, n));
        }
    }
    Ok(())
}
