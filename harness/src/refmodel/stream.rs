//! A uniform native-word stream model for every generator type (dispatch to the per-algorithm
//! models), and the documented `seed_from_u64` expansions.

use super::hc128::Hc128;
use super::isaac::{Isaac, Isaac64};
use super::misc::{pcg32_expand, Xor128};
use super::vigna::{self, Model as Vigna};
use crate::adapter::{Engine, Ty};

pub enum WordModel {
    Vigna(Vigna),
    Hc(Box<Hc128>),
    Isaac(Box<Isaac>),
    Isaac64(Box<Isaac64>),
    Xor(Xor128),
}

impl WordModel {
    /// the raw algorithm started from `seed` (no zero-seed remapping: that is C08's subject)
    pub fn from_seed_raw(ty: Ty, seed: &[u8]) -> WordModel {
        match ty.info().engine {
            Engine::Hc128 => WordModel::Hc(Box::new(Hc128::from_seed(seed))),
            Engine::Isaac => WordModel::Isaac(Box::new(Isaac::from_seed(seed))),
            Engine::Isaac64 => WordModel::Isaac64(Box::new(Isaac64::from_seed(seed))),
            Engine::XorShift128 => WordModel::Xor(Xor128::from_seed(seed)),
            _ => WordModel::Vigna(Vigna::from_seed(ty, seed)),
        }
    }

    /// `from_seed` as documented, including the zero-seed replacement
    pub fn from_seed(ty: Ty, seed: &[u8]) -> WordModel {
        let info = ty.info();
        if info.linear && seed.iter().all(|&b| b == 0) {
            if info.engine == Engine::XorShift128 {
                let mut s = Vec::new();
                for _ in 0..4 {
                    s.extend_from_slice(&0x0BAD_5EEDu32.to_le_bytes());
                }
                return WordModel::from_seed_raw(ty, &s);
            }
            return WordModel::seed_from_u64(ty, 0);
        }
        WordModel::from_seed_raw(ty, seed)
    }

    /// the documented expansion of a u64
    pub fn seed_from_u64(ty: Ty, x: u64) -> WordModel {
        let info = ty.info();
        match info.engine {
            Engine::SplitMix => WordModel::from_seed_raw(ty, &x.to_le_bytes()),
            Engine::Isaac => WordModel::Isaac(Box::new(Isaac::new(&[x as u32, (x >> 32) as u32], 1))),
            Engine::Isaac64 => WordModel::Isaac64(Box::new(Isaac64::new(&[x], 1))),
            Engine::XorShift128 | Engine::Hc128 => WordModel::from_seed(ty, &pcg32_expand(x, info.seed_len)),
            _ => WordModel::from_seed(ty, &vigna::splitmix_bytes(x, info.seed_len)),
        }
    }

    /// the seed bytes `seed_from_u64(x)` passes to `from_seed` (None for ISAAC, whose u64 seeding
    /// is not a `from_seed` call)
    pub fn expansion(ty: Ty, x: u64) -> Option<Vec<u8>> {
        let info = ty.info();
        match info.engine {
            Engine::SplitMix => Some(x.to_le_bytes().to_vec()),
            Engine::Isaac | Engine::Isaac64 => None,
            Engine::XorShift128 | Engine::Hc128 => Some(pcg32_expand(x, info.seed_len)),
            _ => Some(vigna::splitmix_bytes(x, info.seed_len)),
        }
    }

    pub fn next(&mut self) -> u64 {
        match self {
            WordModel::Vigna(m) => m.next(),
            WordModel::Hc(m) => m.next() as u64,
            WordModel::Isaac(m) => m.next() as u64,
            WordModel::Isaac64(m) => m.next(),
            WordModel::Xor(m) => m.next() as u64,
        }
    }
}
