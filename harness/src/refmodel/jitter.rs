//! Jitterentropy 2.1.0 collection procedure as documented in rand_jitter, written from the
//! documentation and the property text in *feedback form* (explicit feedback bit, then one
//! rotation) so that it shares no code shape with the crate. All delta arithmetic is modulo
//! 2^32 (the C original uses unsigned wrap-around; the zero tests agree modulo 2^32).

use crate::timer::Script;

#[derive(Clone, Copy, Debug, PartialEq, Eq, serde::Serialize, serde::Deserialize)]
pub enum TimerErr {
    NoTimer,
    CoarseTimer,
    NotMonotonic,
    TinyVariations,
    TooManyStuck,
    /// a variant this harness does not know (the enum is non-exhaustive)
    Other,
}

#[derive(Clone, Debug)]
pub struct Ec {
    prev: u64,
    ld: u32,
    ld2: u32,
}

#[derive(Clone)]
pub struct Model {
    pub script: Script,
    /// number of timer readings consumed so far
    pub reads: usize,
    pub pool: u64,
    pub rounds: u32,
    pub half: bool,
    /// statistics for non-triviality classification
    pub stuck_seen: u64,
    pub measurements: u64,
    /// if Some: the pool value after every fold, every rotation and the stir of a collection
    pub trace: Option<Vec<u64>>,
}

/// facts about one `test_timer` run, for C13's validity predicate
#[derive(Clone, Debug, Default, serde::Serialize, serde::Deserialize)]
pub struct ProbeFacts {
    pub probes_run: usize,
    pub zero_reading: bool,
    pub zero_delta: bool,
    pub backwards: u32,
    pub mod100: u32,
    pub stuck: u32,
    /// sum of |d_i - d_{i-1}| over the counted probes with d_{-1} = 0 (Jitterentropy 2.1.0)
    pub delta_sum_primed: u64,
    /// the same sum without the priming term |d_0 - 0|
    pub delta_sum_unprimed: u64,
}

pub fn rotl(x: u64, k: u32) -> u64 {
    x.rotate_left(k % 64)
}

/// one fold of a 64-bit time value into the pool through the LFSR
/// x^64 + x^61 + x^56 + x^31 + x^28 + x^23 + 1
pub fn fold(mut d: u64, t: u64) -> u64 {
    for i in 0..64 {
        let f = ((t >> i) ^ (d >> 63) ^ (d >> 60) ^ (d >> 55) ^ (d >> 30) ^ (d >> 27) ^ (d >> 22)) & 1;
        d = (d ^ f).rotate_left(1);
    }
    d
}

pub fn stir(d: u64) -> u64 {
    // constants: the first four SHA-1 initialisation words, paired
    let c: u64 = (0x67452301u64 << 32) | 0xefcdab89;
    let mut mixer: u64 = (0x98badcfeu64 << 32) | 0x10325476;
    for i in 0..64 {
        if (d >> i) & 1 == 1 {
            mixer ^= c;
        }
        mixer = mixer.rotate_left(1);
    }
    d ^ mixer
}

/// Pool content p0 such that the collection that starts at reading `offset` of `script` with
/// `rounds` rounds returns exactly `want` (in the model). The collection is affine in the pool:
/// result = A·p0 ^ c; A and c are read off the model on the 64 basis pools and on 0.
pub fn pool_for_result(script: &Script, offset: usize, rounds: u32, want: u64, budget: usize) -> Option<u64> {
    use crate::gf2::{Bits, Matrix};
    let run = |p0: u64| -> Option<u64> {
        let mut m = Model::new(script.clone());
        m.reads = offset;
        m.rounds = rounds;
        m.pool = p0;
        m.collect(budget)
    };
    let c = run(0)?;
    let mut cols = Vec::with_capacity(64);
    for i in 0..64 {
        let mut b = Bits::ZERO;
        b.0[0] = run(1u64 << i)? ^ c;
        cols.push(b);
    }
    let inv = Matrix { n: 64, cols }.inverse()?;
    let mut t = Bits::ZERO;
    t.0[0] = want ^ c;
    let p0 = inv.apply(&t).0[0];
    if run(p0)? == want {
        Some(p0)
    } else {
        None
    }
}

/// Pool content p0 such that, in the collection that starts at reading `offset`, the pool holds
/// exactly `want` at intermediate stage number `stage` (counted over every fold, every rotation
/// and the final stir; taken modulo the number of stages). Every stage is affine in p0.
pub fn pool_for_stage(script: &Script, offset: usize, rounds: u32, stage: usize, want: u64, budget: usize) -> Option<u64> {
    use crate::gf2::{Bits, Matrix};
    let run = |p0: u64| -> Option<Vec<u64>> {
        let mut m = Model::new(script.clone());
        m.reads = offset;
        m.rounds = rounds;
        m.pool = p0;
        m.trace = Some(Vec::new());
        m.collect(budget)?;
        m.trace
    };
    let t0 = run(0)?;
    if t0.is_empty() {
        return None;
    }
    // stages above usize::MAX / 2 count from the end: usize::MAX = after the stir, usize::MAX - 1 =
    // before the stir (after the last rotation), ...
    let s = if stage > usize::MAX / 2 { t0.len() - 1 - ((usize::MAX - stage) % t0.len()) } else { stage % t0.len() };
    let c = t0[s];
    let mut cols = Vec::with_capacity(64);
    for i in 0..64 {
        let mut b = Bits::ZERO;
        b.0[0] = run(1u64 << i)?.get(s).copied()? ^ c;
        cols.push(b);
    }
    let mut t = Bits::ZERO;
    t.0[0] = want ^ c;
    let p0 = Matrix { n: 64, cols }.solve(&t)?.0[0];
    if run(p0)?.get(s).copied()? == want {
        Some(p0)
    } else {
        None
    }
}

/// Pool content p0 such that the collection starting at `offset` returns `p0 ^ relation`
/// (relation = 0: a fixed point of the collection map).
pub fn pool_for_relation(script: &Script, offset: usize, rounds: u32, relation: u64, budget: usize) -> Option<u64> {
    use crate::gf2::{Bits, Matrix};
    let run = |p0: u64| -> Option<u64> {
        let mut m = Model::new(script.clone());
        m.reads = offset;
        m.rounds = rounds;
        m.pool = p0;
        m.collect(budget)
    };
    let c = run(0)?;
    // result = A p0 ^ c  and  result = p0 ^ relation   =>   (A ^ I) p0 = c ^ relation
    let mut cols = Vec::with_capacity(64);
    for i in 0..64 {
        let mut b = Bits::ZERO;
        b.0[0] = run(1u64 << i)? ^ c ^ (1u64 << i);
        cols.push(b);
    }
    let mut t = Bits::ZERO;
    t.0[0] = c ^ relation;
    let p0 = Matrix { n: 64, cols }.solve(&t)?.0[0];
    if run(p0)? == p0 ^ relation {
        Some(p0)
    } else {
        None
    }
}

impl Model {
    pub fn new(script: Script) -> Model {
        Model { script, reads: 0, pool: 0, rounds: 64, half: false, stuck_seen: 0, measurements: 0, trace: None }
    }

    fn read(&mut self) -> u64 {
        let v = self.script.at(self.reads);
        self.reads += 1;
        v
    }

    fn stuck(ec: &mut Ec, delta: u32) -> bool {
        let d2 = ec.ld.wrapping_sub(delta);
        let d3 = d2.wrapping_sub(ec.ld2);
        ec.ld = delta;
        ec.ld2 = d2;
        delta == 0 || d2 == 0 || d3 == 0
    }

    fn measure(&mut self, ec: &mut Ec) -> bool {
        let _loops_mem = self.read();
        let time = self.read();
        let delta = time.wrapping_sub(ec.prev) as u32;
        ec.prev = time;
        let _loops_lfsr = self.read();
        // the 32-bit delta is folded sign-extended to 64 bits
        self.pool = fold(self.pool, delta as i32 as i64 as u64);
        if let Some(t) = &mut self.trace {
            t.push(self.pool);
        }
        self.measurements += 1;
        if Self::stuck(ec, delta) {
            self.stuck_seen += 1;
            return false;
        }
        self.pool = self.pool.rotate_left(7);
        if let Some(t) = &mut self.trace {
            t.push(self.pool);
        }
        true
    }

    /// `None` when more than `budget` readings would be needed (a stuck script)
    pub fn collect(&mut self, budget: usize) -> Option<u64> {
        let mut ec = Ec { prev: self.read(), ld: 0, ld2: 0 };
        let _ = self.measure(&mut ec);
        for _ in 0..self.rounds {
            while !self.measure(&mut ec) {
                if self.reads > budget {
                    return None;
                }
            }
        }
        self.pool = stir(self.pool);
        if let Some(t) = &mut self.trace {
            t.push(self.pool);
        }
        Some(self.pool)
    }

    pub fn next_u64(&mut self, budget: usize) -> Option<u64> {
        self.half = false;
        self.collect(budget)
    }

    pub fn next_u32(&mut self, budget: usize) -> Option<u32> {
        if self.half {
            self.half = false;
            Some((self.pool >> 32) as u32)
        } else {
            let v = self.next_u64(budget)?;
            self.half = true;
            Some(v as u32)
        }
    }

    /// `fill_bytes` by the composition rule of the statement: n/8 next_u64, then one next_u64
    /// (tail 5..7) or one next_u32 (tail 1..4), little-endian, truncated.
    pub fn fill(&mut self, n: usize, budget: usize) -> Option<Vec<u8>> {
        let mut out = Vec::with_capacity(n + 8);
        for _ in 0..n / 8 {
            out.extend_from_slice(&self.next_u64(budget)?.to_le_bytes());
        }
        let tail = n % 8;
        if tail > 4 {
            let v = self.next_u64(budget)?.to_le_bytes();
            out.extend_from_slice(&v[..tail]);
        } else if tail > 0 {
            let v = self.next_u32(budget)?.to_le_bytes();
            out.extend_from_slice(&v[..tail]);
        }
        Some(out)
    }

    pub fn set_rounds(&mut self, r: u8) {
        assert!(r > 0);
        self.rounds = r as u32;
    }

    pub fn timer_stats(&mut self, var_rounds: bool) -> i64 {
        let time = self.read();
        if var_rounds {
            let _ = self.read();
            let _ = self.read();
        }
        self.pool = fold(self.pool, time);
        let time2 = self.read();
        time2.wrapping_sub(time) as i64
    }

    /// The 400-probe timer test. Returns the outcome of the Jitterentropy 2.1.0 procedure as
    /// documented, and the facts needed by C13's validity predicate. Early exits (a zero
    /// reading, a zero 32-bit delta) happen at the probe where they are detected, so the number
    /// of readings consumed is part of the model.
    pub fn test_timer(&mut self) -> (Result<u8, TimerErr>, ProbeFacts) {
        let mut facts = ProbeFacts::default();
        let mut ec = Ec { prev: self.read(), ld: 0, ld2: 0 };
        let mut old_delta: u32 = 0;
        let mut first = true;
        for i in 0..400 {
            let time = self.read();
            let _ = self.read();
            let _ = self.read();
            self.pool = fold(self.pool, time);
            let time2 = self.read();
            facts.probes_run = i + 1;
            if time == 0 || time2 == 0 {
                facts.zero_reading = true;
                return (Err(TimerErr::NoTimer), facts);
            }
            let delta = time2.wrapping_sub(time) as u32;
            if delta == 0 {
                facts.zero_delta = true;
                return (Err(TimerErr::CoarseTimer), facts);
            }
            if i < 100 {
                continue;
            }
            if Self::stuck(&mut ec, delta) {
                facts.stuck += 1;
            }
            if time2 <= time {
                facts.backwards += 1;
            }
            if (delta as i32) % 100 == 0 {
                facts.mod100 += 1;
            }
            let var = (delta.wrapping_sub(old_delta) as i32).unsigned_abs() as u64;
            facts.delta_sum_primed += var;
            if !first {
                facts.delta_sum_unprimed += var;
            }
            first = false;
            old_delta = delta;
        }
        if facts.backwards > 3 {
            return (Err(TimerErr::NotMonotonic), facts);
        }
        let mean = facts.delta_sum_primed / 300;
        // log2(mean)/2 credits zero bits per round when mean < 2
        if mean < 2 {
            return (Err(TimerErr::TinyVariations), facts);
        }
        if facts.mod100 > 270 {
            return (Err(TimerErr::CoarseTimer), facts);
        }
        if facts.stuck > 270 {
            return (Err(TimerErr::TooManyStuck), facts);
        }
        let bl = 64 - mean.leading_zeros() as u64; // bitlen(mean) >= 2
        let r = (128 + bl - 1) / bl;
        (Ok(r.min(128) as u8), facts)
    }
}
