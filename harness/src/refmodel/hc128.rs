//! HC-128 as specified in Hongjun Wu, "The Stream Cipher HC-128", section 2: array form with
//! W[0..1279], tables P and Q, g1/g2/h1/h2 and all indices reduced mod 512 at every access.
//! No unrolling, no precomputed indices, no block buffer.

pub struct Hc128 {
    p: [u32; 512],
    q: [u32; 512],
    i: usize,
}

fn f1(x: u32) -> u32 {
    x.rotate_right(7) ^ x.rotate_right(18) ^ (x >> 3)
}
fn f2(x: u32) -> u32 {
    x.rotate_right(17) ^ x.rotate_right(19) ^ (x >> 10)
}
fn g1(x: u32, y: u32, z: u32) -> u32 {
    (x.rotate_right(10) ^ z.rotate_right(23)).wrapping_add(y.rotate_right(8))
}
fn g2(x: u32, y: u32, z: u32) -> u32 {
    (x.rotate_left(10) ^ z.rotate_left(23)).wrapping_add(y.rotate_left(8))
}
fn m(j: usize, k: usize) -> usize {
    (j + 512 - (k % 512)) % 512
}

impl Hc128 {
    fn h1(&self, x: u32) -> u32 {
        self.q[(x & 0xff) as usize].wrapping_add(self.q[256 + ((x >> 16) & 0xff) as usize])
    }
    fn h2(&self, x: u32) -> u32 {
        self.p[(x & 0xff) as usize].wrapping_add(self.p[256 + ((x >> 16) & 0xff) as usize])
    }

    pub fn new(key: [u32; 4], iv: [u32; 4]) -> Hc128 {
        let mut w = vec![0u32; 1280];
        for i in 0..8 {
            w[i] = key[i % 4];
        }
        for i in 8..16 {
            w[i] = iv[(i - 8) % 4];
        }
        for i in 16..1280 {
            w[i] = f2(w[i - 2])
                .wrapping_add(w[i - 7])
                .wrapping_add(f1(w[i - 15]))
                .wrapping_add(w[i - 16])
                .wrapping_add(i as u32);
        }
        let mut s = Hc128 { p: [0; 512], q: [0; 512], i: 0 };
        s.p.copy_from_slice(&w[256..768]);
        s.q.copy_from_slice(&w[768..1280]);
        for i in 0..512 {
            let v = s.p[i].wrapping_add(g1(s.p[m(i, 3)], s.p[m(i, 10)], s.p[m(i, 511)]));
            s.p[i] = v ^ s.h1(s.p[m(i, 12)]);
        }
        for i in 0..512 {
            let v = s.q[i].wrapping_add(g2(s.q[m(i, 3)], s.q[m(i, 10)], s.q[m(i, 511)]));
            s.q[i] = v ^ s.h2(s.q[m(i, 12)]);
        }
        s
    }

    pub fn from_seed(seed: &[u8]) -> Hc128 {
        assert_eq!(seed.len(), 32);
        let mut w = [0u32; 8];
        for i in 0..8 {
            w[i] = u32::from_le_bytes([seed[4 * i], seed[4 * i + 1], seed[4 * i + 2], seed[4 * i + 3]]);
        }
        Hc128::new([w[0], w[1], w[2], w[3]], [w[4], w[5], w[6], w[7]])
    }

    pub fn next(&mut self) -> u32 {
        let j = self.i % 512;
        let s = if self.i % 1024 < 512 {
            self.p[j] = self.p[j].wrapping_add(g1(self.p[m(j, 3)], self.p[m(j, 10)], self.p[m(j, 511)]));
            self.h1(self.p[m(j, 12)]) ^ self.p[j]
        } else {
            self.q[j] = self.q[j].wrapping_add(g2(self.q[m(j, 3)], self.q[m(j, 10)], self.q[m(j, 511)]));
            self.h2(self.q[m(j, 12)]) ^ self.q[j]
        };
        self.i += 1;
        s
    }

    pub fn position(&self) -> usize {
        self.i
    }
}
