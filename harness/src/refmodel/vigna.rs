//! Transliteration of the Blackman–Vigna C reference sources (xoshiro/xoroshiro 1.0,
//! xoshiro128** 1.1, splitmix64.c) and of dsiutils' `staffordMix4Upper32`. Written from
//! the published sources, not from the crate: explicit word arrays, no macros, and the
//! engine/scrambler pairing spelled out per generator.

use crate::adapter::Ty;

#[derive(Clone, Debug, PartialEq, Eq)]
pub struct Model {
    pub ty: Ty,
    /// state words (32-bit generators keep their words in the low half)
    pub s: Vec<u64>,
}

fn rotl64(x: u64, k: u32) -> u64 {
    (x << k) | (x >> (64 - k))
}
fn rotl32(x: u32, k: u32) -> u32 {
    (x << k) | (x >> (32 - k))
}

pub fn words_from_seed(ty: Ty, seed: &[u8]) -> Vec<u64> {
    let info = ty.info();
    let wb = (info.word / 8) as usize;
    seed.chunks(wb)
        .map(|c| {
            let mut v = 0u64;
            for (i, b) in c.iter().enumerate() {
                v |= (*b as u64) << (8 * i);
            }
            v
        })
        .collect()
}

pub fn seed_from_words(ty: Ty, s: &[u64]) -> Vec<u8> {
    let wb = (ty.info().word / 8) as usize;
    let mut out = Vec::new();
    for w in s {
        for i in 0..wb {
            out.push((w >> (8 * i)) as u8);
        }
    }
    out
}

impl Model {
    pub fn from_seed(ty: Ty, seed: &[u8]) -> Model {
        Model { ty, s: words_from_seed(ty, seed) }
    }
    pub fn state_bytes(&self) -> Vec<u8> {
        seed_from_words(self.ty, &self.s)
    }
    pub fn is_zero(&self) -> bool {
        self.s.iter().all(|&w| w == 0)
    }

    /// one `next()` of the reference: returns the output word, advances the state
    pub fn next(&mut self) -> u64 {
        let s = &mut self.s;
        match self.ty {
            Ty::SplitMix64 => {
                // splitmix64.c: z = (x += 0x9e3779b97f4a7c15); ...
                s[0] = s[0].wrapping_add(0x9e3779b97f4a7c15);
                let mut z = s[0];
                z = (z ^ (z >> 30)).wrapping_mul(0xbf58476d1ce4e5b9);
                z = (z ^ (z >> 27)).wrapping_mul(0x94d049bb133111eb);
                z ^ (z >> 31)
            }
            Ty::Xoroshiro64Star | Ty::Xoroshiro64StarStar => {
                let s0 = s[0] as u32;
                let mut s1 = s[1] as u32;
                let result = if self.ty == Ty::Xoroshiro64Star {
                    s0.wrapping_mul(0x9E3779BB)
                } else {
                    rotl32(s0.wrapping_mul(0x9E3779BB), 5).wrapping_mul(5)
                };
                s1 ^= s0;
                s[0] = (rotl32(s0, 26) ^ s1 ^ (s1 << 9)) as u64;
                s[1] = rotl32(s1, 13) as u64;
                result as u64
            }
            Ty::Xoroshiro128Plus | Ty::Xoroshiro128StarStar => {
                let s0 = s[0];
                let mut s1 = s[1];
                let result = if self.ty == Ty::Xoroshiro128Plus {
                    s0.wrapping_add(s1)
                } else {
                    rotl64(s0.wrapping_mul(5), 7).wrapping_mul(9)
                };
                s1 ^= s0;
                s[0] = rotl64(s0, 24) ^ s1 ^ (s1 << 16);
                s[1] = rotl64(s1, 37);
                result
            }
            Ty::Xoroshiro128PlusPlus => {
                let s0 = s[0];
                let mut s1 = s[1];
                let result = rotl64(s0.wrapping_add(s1), 17).wrapping_add(s0);
                s1 ^= s0;
                s[0] = rotl64(s0, 49) ^ s1 ^ (s1 << 21);
                s[1] = rotl64(s1, 28);
                result
            }
            Ty::Xoshiro128Plus | Ty::Xoshiro128PlusPlus | Ty::Xoshiro128StarStar => {
                let mut w = [s[0] as u32, s[1] as u32, s[2] as u32, s[3] as u32];
                let result = match self.ty {
                    Ty::Xoshiro128Plus => w[0].wrapping_add(w[3]),
                    Ty::Xoshiro128PlusPlus => rotl32(w[0].wrapping_add(w[3]), 7).wrapping_add(w[0]),
                    _ => rotl32(w[1].wrapping_mul(5), 7).wrapping_mul(9),
                };
                let t = w[1] << 9;
                w[2] ^= w[0];
                w[3] ^= w[1];
                w[1] ^= w[2];
                w[0] ^= w[3];
                w[2] ^= t;
                w[3] = rotl32(w[3], 11);
                for i in 0..4 {
                    s[i] = w[i] as u64;
                }
                result as u64
            }
            Ty::Xoshiro256Plus | Ty::Xoshiro256PlusPlus | Ty::Xoshiro256StarStar => {
                let result = match self.ty {
                    Ty::Xoshiro256Plus => s[0].wrapping_add(s[3]),
                    Ty::Xoshiro256PlusPlus => rotl64(s[0].wrapping_add(s[3]), 23).wrapping_add(s[0]),
                    _ => rotl64(s[1].wrapping_mul(5), 7).wrapping_mul(9),
                };
                let t = s[1] << 17;
                s[2] ^= s[0];
                s[3] ^= s[1];
                s[1] ^= s[2];
                s[0] ^= s[3];
                s[2] ^= t;
                s[3] = rotl64(s[3], 45);
                result
            }
            Ty::Xoshiro512Plus | Ty::Xoshiro512PlusPlus | Ty::Xoshiro512StarStar => {
                let result = match self.ty {
                    Ty::Xoshiro512Plus => s[0].wrapping_add(s[2]),
                    Ty::Xoshiro512PlusPlus => rotl64(s[0].wrapping_add(s[2]), 17).wrapping_add(s[2]),
                    _ => rotl64(s[1].wrapping_mul(5), 7).wrapping_mul(9),
                };
                let t = s[1] << 11;
                s[2] ^= s[0];
                s[5] ^= s[1];
                s[1] ^= s[2];
                s[7] ^= s[3];
                s[3] ^= s[4];
                s[4] ^= s[5];
                s[0] ^= s[6];
                s[6] ^= s[7];
                s[6] ^= t;
                s[7] = rotl64(s[7], 21);
                result
            }
            _ => panic!("vigna model: not a rand_xoshiro type"),
        }
    }

    /// SplitMix64 only: the dsiutils Mix4 finaliser (`staffordMix4Upper32`) of the next
    /// counter step.
    pub fn splitmix_next_u32(&mut self) -> u32 {
        assert_eq!(self.ty, Ty::SplitMix64);
        self.s[0] = self.s[0].wrapping_add(0x9e3779b97f4a7c15);
        mix4_upper32(self.s[0])
    }
}

/// dsiutils `SplitMix64RandomGenerator.staffordMix4Upper32`
pub fn mix4_upper32(mut z: u64) -> u32 {
    z = (z ^ (z >> 33)).wrapping_mul(0x62A9D9ED799705F5);
    (((z ^ (z >> 28)).wrapping_mul(0xCB24D0A5C88C35B3)) >> 32) as u32
}

/// SplitMix64 stream started at x, first n bytes (little-endian words): the documented
/// expansion behind `seed_from_u64` of the xoshiro family.
pub fn splitmix_bytes(x: u64, n: usize) -> Vec<u8> {
    let mut m = Model { ty: Ty::SplitMix64, s: vec![x] };
    let mut out = Vec::with_capacity(n + 8);
    while out.len() < n {
        // rand_core's fill_bytes_via_next: 8-byte chunks from next_u64; a tail of 1..4 bytes
        // comes from next_u32 (only relevant for seed lengths that are not multiples of 8;
        // every seed length here is).
        out.extend_from_slice(&m.next().to_le_bytes());
    }
    out.truncate(n);
    out
}
