//! C05's projection rules, written from the property statement: every call consumes the next
//! whole word(s) of one forward-only native word stream and returns a fixed little-endian
//! projection of exactly those words.
//!
//! The model consumes a lazily buffered word stream (supplied by a twin generator that is only
//! ever asked for native-width words) and predicts each returned value. Where the statement is
//! silent the model may keep several continuations (it never holds more than two candidates);
//! at present no rule is two-valued: an empty `fill_bytes` between two `next_u32` of `Isaac64Rng`
//! ends the "immediately following" window like any other call (see DESIGN.md section 12).

use super::vigna::mix4_upper32;
use crate::adapter::{Engine, Half, Info};

pub struct Stream<'a> {
    src: Box<dyn FnMut() -> u64 + 'a>,
    buf: Vec<u64>,
}

impl<'a> Stream<'a> {
    pub fn new(src: impl FnMut() -> u64 + 'a) -> Stream<'a> {
        Stream { src: Box::new(src), buf: Vec::new() }
    }
    pub fn get(&mut self, i: usize) -> u64 {
        while self.buf.len() <= i {
            let w = (self.src)();
            self.buf.push(w);
        }
        self.buf[i]
    }
    pub fn drawn(&self) -> usize {
        self.buf.len()
    }
}

#[derive(Clone, Debug, PartialEq, Eq)]
pub struct Cand {
    /// next unread native word
    pub cursor: usize,
    /// pending high half (Isaac64Rng, JitterRng)
    pub pending: Option<u32>,
}

#[derive(Clone, Debug, PartialEq, Eq)]
pub enum Val {
    U32(u32),
    U64(u64),
    Bytes(Vec<u8>),
}

/// what happened while predicting (for non-triviality classification)
#[derive(Clone, Debug, Default)]
pub struct Events {
    pub tail_1_7: bool,
    pub zero_len: bool,
    pub straddle_refill: bool,
    pub pending_then_other: bool,
    pub pending_taken: bool,
    pub ambiguous_zero_fill: bool,
}

pub struct Projection {
    pub info: Info,
    pub cands: Vec<Cand>,
    pub events: Events,
}

fn inv_mul(a: u64) -> u64 {
    // Newton iteration for the inverse of an odd number modulo 2^64
    let mut x = a;
    for _ in 0..6 {
        x = x.wrapping_mul(2u64.wrapping_sub(a.wrapping_mul(x)));
    }
    x
}

/// inverse of splitmix64's output function: recovers the counter value of a step from its output
pub fn splitmix_unmix(mut z: u64) -> u64 {
    z = z ^ (z >> 31) ^ (z >> 62);
    z = z.wrapping_mul(inv_mul(0x94d049bb133111eb));
    z = z ^ (z >> 27) ^ (z >> 54);
    z = z.wrapping_mul(inv_mul(0xbf58476d1ce4e5b9));
    z ^ (z >> 30) ^ (z >> 60)
}

impl Projection {
    pub fn new(info: Info) -> Projection {
        Projection { info, cands: vec![Cand { cursor: 0, pending: None }], events: Events::default() }
    }

    fn crosses(&self, from: usize, to_excl: usize, pre: usize) -> bool {
        // does the word range [from, to_excl) contain a block boundary (positions counted from
        // the generator's construction, `pre` words were consumed before the stream started)?
        let b = self.info.block;
        if b == 0 || to_excl <= from + 1 {
            return false;
        }
        (from + pre) / b != (to_excl - 1 + pre) / b
    }

    fn u32_of(&mut self, c: &mut Cand, s: &mut Stream) -> u32 {
        match self.info.half {
            Half::Native => {
                let w = s.get(c.cursor);
                c.cursor += 1;
                w as u32
            }
            Half::Upper => {
                let w = s.get(c.cursor);
                c.cursor += 1;
                (w >> 32) as u32
            }
            Half::Lower => {
                let w = s.get(c.cursor);
                c.cursor += 1;
                w as u32
            }
            Half::Mix4 => {
                let w = s.get(c.cursor);
                c.cursor += 1;
                mix4_upper32(splitmix_unmix(w))
            }
            Half::LowThenHigh => {
                if let Some(h) = c.pending.take() {
                    self.events.pending_taken = true;
                    h
                } else {
                    let w = s.get(c.cursor);
                    c.cursor += 1;
                    c.pending = Some((w >> 32) as u32);
                    w as u32
                }
            }
        }
    }

    fn u64_of(&mut self, c: &mut Cand, s: &mut Stream) -> u64 {
        if c.pending.take().is_some() {
            self.events.pending_then_other = true;
        }
        if self.info.word == 32 {
            let lo = s.get(c.cursor);
            let hi = s.get(c.cursor + 1);
            c.cursor += 2;
            (hi << 32) | (lo & 0xffff_ffff)
        } else {
            let w = s.get(c.cursor);
            c.cursor += 1;
            w
        }
    }

    fn fill_of(&mut self, c: &mut Cand, s: &mut Stream, n: usize, pre: usize) -> Vec<u8> {
        let buffered = matches!(self.info.engine, Engine::Hc128 | Engine::Isaac | Engine::Isaac64);
        let mut out = Vec::with_capacity(n + 8);
        if n == 0 {
            self.events.zero_len = true;
        }
        if n % 8 != 0 {
            self.events.tail_1_7 = true;
        }
        if buffered {
            // first n little-endian bytes of the next ceil(n / wordbytes) buffered words; the high
            // half of a word is only ever returned by an *immediately following* next_u32, so any
            // fill_bytes call of a block generator — also an empty one — ends that chance (for the
            // composition-defined generators below an empty fill is zero calls and changes nothing)
            if c.pending.take().is_some() {
                self.events.pending_then_other = true;
            }
            let wb = (self.info.word / 8) as usize;
            let words = (n + wb - 1) / wb;
            if self.crosses(c.cursor, c.cursor + words, pre) {
                self.events.straddle_refill = true;
            }
            for k in 0..words {
                let w = s.get(c.cursor + k);
                out.extend_from_slice(&w.to_le_bytes()[..wb]);
            }
            c.cursor += words;
            out.truncate(n);
        } else {
            // composition rule: n/8 next_u64, then one next_u64 (tail 5..7) or one next_u32
            // (tail 1..4), truncated to the tail
            for _ in 0..n / 8 {
                let v = self.u64_of(c, s);
                out.extend_from_slice(&v.to_le_bytes());
            }
            let tail = n % 8;
            if tail > 4 {
                let v = self.u64_of(c, s);
                out.extend_from_slice(&v.to_le_bytes()[..tail]);
            } else if tail > 0 {
                let v = self.u32_of(c, s);
                out.extend_from_slice(&v.to_le_bytes()[..tail]);
            }
        }
        out
    }

    /// Predict one call for every candidate, keep the candidates whose prediction equals the
    /// value actually returned. `Err(expected)` when no candidate explains it.
    pub fn step(&mut self, op: &crate::ops::Op, actual: &Val, s: &mut Stream, pre: usize) -> Result<(), Val> {
        use crate::ops::Op;
        let mut next = Vec::new();
        let mut first_expected = None;
        let cands = std::mem::take(&mut self.cands);
        for c0 in cands {
            let variants = vec![c0.clone()];
            if let Op::Fill(0) = op {
                if self.info.engine == Engine::Isaac64 && c0.pending.is_some() {
                    // classified for the evidence: an empty fill between two next_u32 calls
                    self.events.ambiguous_zero_fill = true;
                }
            }
            for mut c in variants {
                let straddle_before = c.cursor;
                let v = match op {
                    Op::U32 => Val::U32(self.u32_of(&mut c, s)),
                    Op::U64 => {
                        let v = Val::U64(self.u64_of(&mut c, s));
                        if self.crosses(straddle_before, c.cursor, pre) {
                            self.events.straddle_refill = true;
                        }
                        v
                    }
                    Op::Fill(n) => Val::Bytes(self.fill_of(&mut c, s, *n, pre)),
                    _ => panic!("projection: not an output op"),
                };
                if first_expected.is_none() {
                    first_expected = Some(v.clone());
                }
                if &v == actual && !next.contains(&c) {
                    next.push(c);
                }
            }
        }
        if next.is_empty() {
            return Err(first_expected.unwrap());
        }
        self.cands = next;
        Ok(())
    }
}
