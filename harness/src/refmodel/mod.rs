//! Reference models written from the published algorithm descriptions, not from the crate.
pub mod hc128;
pub mod isaac;
pub mod jitter;
pub mod misc;
pub mod projection;
pub mod stream;
pub mod vigna;
