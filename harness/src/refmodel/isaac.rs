//! Bob Jenkins' ISAAC (rand.c) and ISAAC-64 (isaac64.c): `randinit(flag)` with the golden
//! ratio mixed four times at run time, `isaac()` as the plain 256-iteration loop of the
//! paper, and results handed out the way `rand()` does (from `randrsl[255]` down).

pub struct Isaac {
    mm: [u32; 256],
    rsl: [u32; 256],
    aa: u32,
    bb: u32,
    cc: u32,
    cnt: usize,
}

#[allow(clippy::many_single_char_names)]
fn mix32(v: &mut [u32; 8]) {
    let [mut a, mut b, mut c, mut d, mut e, mut f, mut g, mut h] = *v;
    a ^= b << 11; d = d.wrapping_add(a); b = b.wrapping_add(c);
    b ^= c >> 2;  e = e.wrapping_add(b); c = c.wrapping_add(d);
    c ^= d << 8;  f = f.wrapping_add(c); d = d.wrapping_add(e);
    d ^= e >> 16; g = g.wrapping_add(d); e = e.wrapping_add(f);
    e ^= f << 10; h = h.wrapping_add(e); f = f.wrapping_add(g);
    f ^= g >> 4;  a = a.wrapping_add(f); g = g.wrapping_add(h);
    g ^= h << 8;  b = b.wrapping_add(g); h = h.wrapping_add(a);
    h ^= a >> 9;  c = c.wrapping_add(h); a = a.wrapping_add(b);
    *v = [a, b, c, d, e, f, g, h];
}

impl Isaac {
    /// `seed_words` are placed in `randrsl[0..]`; `passes`: 0 = `randinit(FALSE)`,
    /// 1 = first pass only, 2 = `randinit(TRUE)`.
    pub fn new(seed_words: &[u32], passes: u32) -> Isaac {
        let mut r = [0u32; 256];
        r[..seed_words.len()].copy_from_slice(seed_words);
        let mut v = [0x9e3779b9u32; 8];
        for _ in 0..4 {
            mix32(&mut v);
        }
        let mut mm = [0u32; 256];
        for i in (0..256).step_by(8) {
            if passes >= 1 {
                for k in 0..8 {
                    v[k] = v[k].wrapping_add(r[i + k]);
                }
            }
            mix32(&mut v);
            mm[i..i + 8].copy_from_slice(&v);
        }
        if passes >= 2 {
            for i in (0..256).step_by(8) {
                for k in 0..8 {
                    v[k] = v[k].wrapping_add(mm[i + k]);
                }
                mix32(&mut v);
                mm[i..i + 8].copy_from_slice(&v);
            }
        }
        Isaac { mm, rsl: [0; 256], aa: 0, bb: 0, cc: 0, cnt: 0 }
    }

    pub fn from_seed(seed: &[u8]) -> Isaac {
        let w: Vec<u32> = seed.chunks(4).map(|c| u32::from_le_bytes([c[0], c[1], c[2], c[3]])).collect();
        Isaac::new(&w, 2)
    }

    fn isaac(&mut self) {
        self.cc = self.cc.wrapping_add(1);
        let mut a = self.aa;
        let mut b = self.bb.wrapping_add(self.cc);
        for i in 0..256 {
            let x = self.mm[i];
            a ^= match i % 4 {
                0 => a << 13,
                1 => a >> 6,
                2 => a << 2,
                _ => a >> 16,
            };
            a = a.wrapping_add(self.mm[(i + 128) % 256]);
            let y = self.mm[((x >> 2) & 255) as usize].wrapping_add(a).wrapping_add(b);
            self.mm[i] = y;
            b = self.mm[((y >> 10) & 255) as usize].wrapping_add(x);
            self.rsl[i] = b;
        }
        self.aa = a;
        self.bb = b;
    }

    pub fn next(&mut self) -> u32 {
        if self.cnt == 0 {
            self.isaac();
            self.cnt = 256;
        }
        self.cnt -= 1;
        self.rsl[self.cnt]
    }
}

pub struct Isaac64 {
    mm: [u64; 256],
    rsl: [u64; 256],
    aa: u64,
    bb: u64,
    cc: u64,
    cnt: usize,
}

#[allow(clippy::many_single_char_names)]
fn mix64(v: &mut [u64; 8]) {
    let [mut a, mut b, mut c, mut d, mut e, mut f, mut g, mut h] = *v;
    a = a.wrapping_sub(e); f ^= h >> 9;  h = h.wrapping_add(a);
    b = b.wrapping_sub(f); g ^= a << 9;  a = a.wrapping_add(b);
    c = c.wrapping_sub(g); h ^= b >> 23; b = b.wrapping_add(c);
    d = d.wrapping_sub(h); a ^= c << 15; c = c.wrapping_add(d);
    e = e.wrapping_sub(a); b ^= d >> 14; d = d.wrapping_add(e);
    f = f.wrapping_sub(b); c ^= e << 20; e = e.wrapping_add(f);
    g = g.wrapping_sub(c); d ^= f >> 17; f = f.wrapping_add(g);
    h = h.wrapping_sub(d); e ^= g << 14; g = g.wrapping_add(h);
    *v = [a, b, c, d, e, f, g, h];
}

impl Isaac64 {
    pub fn new(seed_words: &[u64], passes: u32) -> Isaac64 {
        let mut r = [0u64; 256];
        r[..seed_words.len()].copy_from_slice(seed_words);
        let mut v = [0x9e3779b97f4a7c13u64; 8];
        for _ in 0..4 {
            mix64(&mut v);
        }
        let mut mm = [0u64; 256];
        for i in (0..256).step_by(8) {
            if passes >= 1 {
                for k in 0..8 {
                    v[k] = v[k].wrapping_add(r[i + k]);
                }
            }
            mix64(&mut v);
            mm[i..i + 8].copy_from_slice(&v);
        }
        if passes >= 2 {
            for i in (0..256).step_by(8) {
                for k in 0..8 {
                    v[k] = v[k].wrapping_add(mm[i + k]);
                }
                mix64(&mut v);
                mm[i..i + 8].copy_from_slice(&v);
            }
        }
        Isaac64 { mm, rsl: [0; 256], aa: 0, bb: 0, cc: 0, cnt: 0 }
    }

    pub fn from_seed(seed: &[u8]) -> Isaac64 {
        let w: Vec<u64> = seed
            .chunks(8)
            .map(|c| u64::from_le_bytes([c[0], c[1], c[2], c[3], c[4], c[5], c[6], c[7]]))
            .collect();
        Isaac64::new(&w, 2)
    }

    fn isaac(&mut self) {
        self.cc = self.cc.wrapping_add(1);
        let mut a = self.aa;
        let mut b = self.bb.wrapping_add(self.cc);
        for i in 0..256 {
            let x = self.mm[i];
            a = match i % 4 {
                0 => !(a ^ (a << 21)),
                1 => a ^ (a >> 5),
                2 => a ^ (a << 12),
                _ => a ^ (a >> 33),
            };
            a = a.wrapping_add(self.mm[(i + 128) % 256]);
            let y = self.mm[((x >> 3) & 255) as usize].wrapping_add(a).wrapping_add(b);
            self.mm[i] = y;
            b = self.mm[((y >> 11) & 255) as usize].wrapping_add(x);
            self.rsl[i] = b;
        }
        self.aa = a;
        self.bb = b;
    }

    pub fn next(&mut self) -> u64 {
        if self.cnt == 0 {
            self.isaac();
            self.cnt = 256;
        }
        self.cnt -= 1;
        self.rsl[self.cnt]
    }
}
