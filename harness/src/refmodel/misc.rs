//! Small models: Marsaglia's xor128 and rand_core's documented PCG32 `seed_from_u64` expansion.

/// Marsaglia, "Xorshift RNGs" (2003), xor128: t=(x^(x<<11)); x=y; y=z; z=w; w=(w^(w>>19))^(t^(t>>8))
#[derive(Clone, Debug, PartialEq, Eq)]
pub struct Xor128 {
    pub x: u32,
    pub y: u32,
    pub z: u32,
    pub w: u32,
}

impl Xor128 {
    pub fn from_seed(seed: &[u8]) -> Xor128 {
        let w: Vec<u32> = seed.chunks(4).map(|c| u32::from_le_bytes([c[0], c[1], c[2], c[3]])).collect();
        Xor128 { x: w[0], y: w[1], z: w[2], w: w[3] }
    }
    pub fn next(&mut self) -> u32 {
        let t = self.x ^ (self.x << 11);
        self.x = self.y;
        self.y = self.z;
        self.z = self.w;
        self.w = self.w ^ (self.w >> 19) ^ t ^ (t >> 8);
        self.w
    }
    pub fn state_bytes(&self) -> Vec<u8> {
        let mut v = Vec::new();
        for w in [self.x, self.y, self.z, self.w] {
            v.extend_from_slice(&w.to_le_bytes());
        }
        v
    }
}

/// rand_core 0.9 `SeedableRng::seed_from_u64` default: a PCG32 (XSH-RR 64/32, multiplier
/// 6364136223846793005, increment 11634580027462260723) stream, state advanced before each
/// output, copied to the seed in little-endian 4-byte chunks.
pub fn pcg32_expand(mut state: u64, n: usize) -> Vec<u8> {
    const MUL: u64 = 6364136223846793005;
    const INC: u64 = 11634580027462260723;
    let mut out = Vec::with_capacity(n + 4);
    while out.len() < n {
        state = state.wrapping_mul(MUL).wrapping_add(INC);
        let xorshifted = (((state >> 18) ^ state) >> 27) as u32;
        let rot = (state >> 59) as u32;
        out.extend_from_slice(&xorshifted.rotate_right(rot).to_le_bytes());
    }
    out.truncate(n);
    out
}
