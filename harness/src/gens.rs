//! Shared proptest strategies: seeds (weighted classes), operation histories, sources, timers.

use crate::adapter::{Info, Ty};
use crate::src::SrcSpec;
use crate::timer::Script;
use proptest::collection::vec;
use proptest::prelude::*;
use proptest::strategy::BoxedStrategy;
use serde::{Deserialize, Serialize};

pub use crate::ops::{Ctor, GenSpec, Op, SeedBytes as Seed};

/// the seeds used by the crates' own tests (anchors; counted as trivial)
pub fn anchor_seeds(ty: Ty) -> Vec<Vec<u8>> {
    let info = ty.info();
    let wb = (info.word / 8) as usize;
    let n = info.seed_len / wb;
    let mut s = Vec::new();
    // state words 1, 2, 3, ... little-endian (rand_xoshiro / rand_xorshift reference tests)
    let mut a = Vec::new();
    for i in 0..n {
        let mut w = vec![0u8; wb];
        w[0] = (i + 1) as u8;
        a.extend_from_slice(&w);
    }
    s.push(a);
    if info.seed_len == 32 {
        // rand_isaac / rand_hc test seeds
        let words = [1u32, 23, 456, 7890, 0, 0, 0, 0];
        s.push(words.iter().flat_map(|w| w.to_le_bytes()).collect());
        let words64 = [1u64, 23, 456, 7890];
        s.push(words64.iter().flat_map(|w| w.to_le_bytes()).collect());
        let mut v = vec![0u8; 32];
        v[16] = 1;
        s.push(v);
        let mut v = vec![0u8; 32];
        v[0] = 0x55;
        s.push(v);
    }
    s
}

pub fn is_anchor(ty: Ty, bytes: &[u8]) -> bool {
    anchor_seeds(ty).iter().any(|a| a == bytes)
}

fn special_word(word_bits: u32) -> BoxedStrategy<u64> {
    let max = if word_bits == 32 { u32::MAX as u64 } else { u64::MAX };
    let top = 1u64 << (word_bits - 1);
    prop_oneof![
        2 => Just(0u64),
        2 => Just(max),
        1 => Just(top),
        1 => Just(1u64),
        1 => Just(max - 1),
        1 => Just(top | 1),
        1 => Just(0xFFFF_FFFFu64 & max),
        1 => Just((0xFFFF_FFFF_0000_0000u64) & max),
        1 => Just(top - 1),
        3 => any::<u64>().prop_map(move |v| v & max),
    ]
    .boxed()
}

fn set_bits(len: usize, positions: &[usize], base: u8) -> Vec<u8> {
    let mut v = vec![base; len];
    for &p in positions {
        let p = p % (len * 8);
        v[p / 8] ^= 1 << (p % 8);
    }
    v
}

/// Seeds of `len` bytes, never all-zero unless `allow_zero`.
pub fn seed_bytes(len: usize, word_bits: u32, anchors: Vec<Vec<u8>>, allow_zero: bool) -> BoxedStrategy<Seed> {
    let wb = (word_bits / 8) as usize;
    let nwords = len / wb;
    let uniform = vec(any::<u8>(), len).prop_map(|b| Seed { class: "uniform".into(), bytes: b });
    let sparse = vec(0usize..len * 8, 1..=3).prop_map(move |p| Seed { class: "sparse".into(), bytes: set_bits(len, &p, 0) });
    let dense = vec(0usize..len * 8, 0..=3).prop_map(move |p| Seed { class: "dense".into(), bytes: set_bits(len, &p, 0xff) });
    let words = vec(special_word(word_bits), nwords).prop_map(move |ws| {
        let mut b = Vec::with_capacity(len);
        for w in ws {
            b.extend_from_slice(&w.to_le_bytes()[..wb]);
        }
        Seed { class: "words".into(), bytes: b }
    });
    let onebyte = (0usize..len, 1u8..=255).prop_map(move |(i, v)| {
        let mut b = vec![0u8; len];
        b[i] = v;
        Seed { class: "onebyte".into(), bytes: b }
    });
    // relational words: every word is derived from one base word (equal, complement, negation,
    // disjoint bits, off by one) — the shapes on which guards like `a ^ b == 0`, `a + b == 0`,
    // `a & b == 0` or "all words equal" fire
    let relational = (special_word(word_bits), vec((0u8..10, any::<u64>()), nwords)).prop_map(move |(w, sel)| {
        let max = if word_bits == 32 { u32::MAX as u64 } else { u64::MAX };
        let mut b = Vec::with_capacity(len);
        for (k, x) in sel {
            let v = match k {
                0 | 1 => w,
                2 => !w,
                3 => w.wrapping_neg(),
                4 => 0,
                5 => x & !w,
                6 => w ^ 1,
                7 => max,
                8 => w.rotate_left(1),
                _ => x,
            } & max;
            b.extend_from_slice(&v.to_le_bytes()[..wb]);
        }
        Seed { class: "relational".into(), bytes: b }
    });
    let anchor = if anchors.is_empty() {
        Just(Seed { class: "uniform".into(), bytes: vec![0x5a; len] }).boxed()
    } else {
        proptest::sample::select(anchors).prop_map(|b| Seed { class: "anchor".into(), bytes: b }).boxed()
    };
    let zero = Just(Seed { class: "zero".into(), bytes: vec![0u8; len] });
    let s = if allow_zero {
        prop_oneof![8 => uniform, 3 => sparse, 2 => dense, 5 => words, 3 => relational, 2 => onebyte, 1 => anchor, 2 => zero].boxed()
    } else {
        prop_oneof![8 => uniform, 3 => sparse, 2 => dense, 5 => words, 3 => relational, 2 => onebyte, 1 => anchor].boxed()
    };
    if allow_zero {
        s
    } else {
        // the word-structured class can produce all-zero: map it to a fixed non-zero seed
        s.prop_map(|mut sd| {
            if sd.is_zero() {
                sd.bytes[0] = 1;
                sd.class = "sparse".into();
            }
            sd
        })
        .boxed()
    }
}

/// structured states meant as *targets* (successor states, jump targets): the preimage
/// sub-checks pull them back through the inverse linear map, so that special cases keyed on the
/// result of a step or jump are reached as well
pub fn target_state(ty: Ty) -> BoxedStrategy<Seed> {
    let info = ty.info();
    let (len, wb) = (info.seed_len, (info.word / 8) as usize);
    let n = len / wb;
    let max = if info.word == 32 { u32::MAX as u64 } else { u64::MAX };
    let small = (vec(prop_oneof![3 => Just(0u64), 2 => 1u64..=16, 1 => any::<u64>()], n)).prop_map(move |ws| {
        let mut b = Vec::with_capacity(len);
        for w in ws {
            b.extend_from_slice(&(w & max).to_le_bytes()[..wb]);
        }
        Seed { class: "target-small-words".into(), bytes: b }
    });
    let konst = special_word(info.word).prop_map(move |w| {
        let mut b = Vec::with_capacity(len);
        for _ in 0..n {
            b.extend_from_slice(&w.to_le_bytes()[..wb]);
        }
        Seed { class: "target-constant-words".into(), bytes: b }
    });
    prop_oneof![4 => seed_bytes(len, info.word, Vec::new(), false), 3 => small, 1 => konst]
        .prop_map(|mut s| {
            if s.is_zero() {
                s.bytes[0] = 1;
            }
            s
        })
        .boxed()
}

fn inv_mul(a: u64) -> u64 {
    let mut x = a;
    for _ in 0..6 {
        x = x.wrapping_mul(2u64.wrapping_sub(a.wrapping_mul(x)));
    }
    x
}
fn unxorshift(v: u64, s: u32) -> u64 {
    let mut y = v;
    let mut k = s;
    while k < 64 {
        y ^= y >> k;
        k *= 2;
    }
    y
}

/// SplitMix64 counters worth visiting: a counter wrap / special counter value reached after a
/// few steps, and counters whose value after an internal stage of the two reference finalisers
/// (splitmix64.c's mix and dsiutils' Mix4) is structured (zero, below 2^32, high half only, all
/// ones, a single bit) — pulled back through the reference's invertible stages
pub fn splitmix_seed() -> BoxedStrategy<Seed> {
    const PHI: u64 = 0x9e3779b97f4a7c15;
    let structured = prop_oneof![
        2 => Just(0u64),
        3 => any::<u32>().prop_map(|v| v as u64),
        2 => any::<u32>().prop_map(|v| (v as u64) << 32),
        1 => Just(u64::MAX),
        2 => (0u32..64).prop_map(|k| 1u64 << k),
        1 => Just(0xffff_ffffu64),
        1 => Just(1u64 << 63),
    ];
    (structured, 0u8..6, 0u64..=12)
        .prop_map(|(v, stage, k)| {
            let counter = match stage {
                0 => v,
                // splitmix64.c: z = (z ^ z>>30)*C1; z = (z ^ z>>27)*C2; out = z ^ z>>31
                1 => unxorshift(v.wrapping_mul(inv_mul(0xbf58476d1ce4e5b9)), 30),
                2 => unxorshift(unxorshift(v.wrapping_mul(inv_mul(0x94d049bb133111eb)), 27).wrapping_mul(inv_mul(0xbf58476d1ce4e5b9)), 30),
                3 => unxorshift(unxorshift(unxorshift(v, 31).wrapping_mul(inv_mul(0x94d049bb133111eb)), 27).wrapping_mul(inv_mul(0xbf58476d1ce4e5b9)), 30),
                // Mix4: z = (z ^ z>>33)*D1; z = (z ^ z>>28)*D2; out = z>>32
                4 => unxorshift(v.wrapping_mul(inv_mul(0x62A9D9ED799705F5)), 33),
                _ => unxorshift(unxorshift(v.wrapping_mul(inv_mul(0xCB24D0A5C88C35B3)), 28).wrapping_mul(inv_mul(0x62A9D9ED799705F5)), 33),
            };
            // the counter is reached at step k+1
            let seed = counter.wrapping_sub(PHI.wrapping_mul(k + 1));
            Seed { class: "splitmix-stage".into(), bytes: seed.to_le_bytes().to_vec() }
        })
        .boxed()
}

pub fn seed_for(ty: Ty, allow_zero: bool) -> BoxedStrategy<Seed> {
    let info = ty.info();
    let base = seed_bytes(info.seed_len, info.word, anchor_seeds(ty), allow_zero);
    if ty == Ty::SplitMix64 {
        prop_oneof![3 => base, 1 => splitmix_seed()].boxed()
    } else {
        base
    }
}


/// fill lengths: 0; 1..8; 9..64; around the block size of the type; up to `big`
pub fn fill_len(info: &Info, big: usize) -> BoxedStrategy<usize> {
    let bb = if info.block > 0 { info.block * (info.word as usize / 8) } else { 64 };
    prop_oneof![
        2 => Just(0usize),
        6 => 1usize..=8,
        4 => 9usize..=64,
        3 => (bb.saturating_sub(9))..=(bb + 9),
        2 => (2 * bb).saturating_sub(5)..=(2 * bb + 5),
        2 => 65usize..=big.max(66),
        // exact multiples of the block size, and requests of 64 KiB and more (bulk paths)
        2 => (1usize..=4).prop_map(move |k| k * bb),
        if big >= 5000 { 1 } else { 0 } => prop_oneof![Just(65536usize), 65537usize..=70_000, Just(131072usize), (16usize..=40).prop_map(move |k| k * bb + 4096 * 16)],
    ]
    .boxed()
}

/// histories focused on a block boundary: a vocabulary of calls that land exactly on, one short
/// of, or one past the boundary (used together with a pre-advance close to the boundary)
pub fn boundary_ops(info: &Info, max_len: usize) -> BoxedStrategy<Vec<Op>> {
    let bb = if info.block > 0 { info.block * (info.word as usize / 8) } else { 64 };
    let wb = info.word as usize / 8;
    let op = prop_oneof![
        5 => Just(Op::U32),
        4 => Just(Op::U64),
        1 => Just(Op::Fill(0)),
        2 => Just(Op::Fill(wb)),
        1 => Just(Op::Fill(wb / 2)),
        3 => (1usize..=3).prop_map(move |k| Op::Fill(k * bb)),
        2 => (1usize..=2, 1usize..=8).prop_map(move |(k, e)| Op::Fill(k * bb - e.min(k * bb))),
        2 => (1usize..=2, 1usize..=8).prop_map(move |(k, e)| Op::Fill(k * bb + e)),
    ];
    vec(op, 0..=max_len).boxed()
}

pub fn boundary_pre(info: &Info) -> BoxedStrategy<usize> {
    let b = info.block.max(4);
    prop_oneof![(b - 3)..=(b + 1), (2 * b - 3)..=(2 * b + 1), Just(b - 1), Just(b)].boxed()
}

pub fn op(info: &Info, big: usize, jumps: bool) -> BoxedStrategy<Op> {
    let fl = fill_len(info, big).prop_map(Op::Fill);
    if jumps && info.jump {
        prop_oneof![6 => Just(Op::U32), 6 => Just(Op::U64), 6 => fl, 1 => Just(Op::Jump), 1 => Just(Op::LongJump)].boxed()
    } else {
        prop_oneof![6 => Just(Op::U32), 6 => Just(Op::U64), 6 => fl].boxed()
    }
}

pub fn ops(info: &Info, max_len: usize, big: usize, jumps: bool) -> BoxedStrategy<Vec<Op>> {
    vec(op(info, big, jumps), 0..=max_len).boxed()
}

/// pre-advance in native words so that every buffer index is a starting point
pub fn pre_advance(info: &Info) -> BoxedStrategy<usize> {
    if info.block > 0 {
        let b = info.block;
        prop_oneof![
            3 => Just(0usize),
            4 => 0usize..=b + 2,
            2 => (b.saturating_sub(3))..=(b + 3),
            2 => (2 * b).saturating_sub(3)..=(2 * b + 3),
            1 => 0usize..=(2 * b + 90),
            // around the wrap points of internal position counters (HC-128's 1024-step table
            // cycle, ISAAC's 256-word blocks, 2^k words in general)
            1 => (6u32..=14, 0usize..8).prop_map(|(k, d)| (1usize << k) - 4 + d),
            1 => (1usize..=40, 0usize..3).prop_map(move |(blocks, d)| (blocks * 64 * b / 16).saturating_sub(1) + d),
        ]
        .boxed()
    } else {
        prop_oneof![3 => Just(0usize), 3 => 0usize..=20, 1 => 0usize..=600].boxed()
    }
}

/// boundary values of u64 arithmetic: 0, 1, MAX, and 2^k, 2^k +- 1, -(2^k) for every k
pub fn boundary_u64() -> BoxedStrategy<u64> {
    prop_oneof![
        1 => Just(0u64),
        1 => Just(1u64),
        1 => Just(u64::MAX),
        12 => (0u32..64, 0u8..5).prop_map(|(k, m)| {
            let p = 1u64 << k;
            match m {
                0 => p,
                1 => p.wrapping_sub(1),
                2 => p.wrapping_add(1),
                3 => p.wrapping_neg(),
                _ => p.wrapping_neg().wrapping_sub(1),
            }
        }),
    ]
    .boxed()
}

pub fn interesting_u64() -> BoxedStrategy<u64> {
    prop_oneof![
        2 => Just(0u64),
        1 => Just(1u64),
        1 => Just(u64::MAX),
        // the argument whose first SplitMix64 output is 0
        2 => Just(0u64.wrapping_sub(0x9e3779b97f4a7c15)),
        2 => (0u32..64).prop_map(|k| 1u64 << k),
        2 => (0u32..64).prop_map(|k| (1u64 << k).wrapping_sub(1)),
        2 => any::<u32>().prop_map(|v| v as u64),
        8 => any::<u64>(),
    ]
    .boxed()
}

/// Source byte streams: `zero_blocks` leading all-zero blocks of `block` bytes, then scripted
/// bytes, then the keyed continuation.
pub fn src_spec(block: usize, max_zero_blocks: usize) -> BoxedStrategy<SrcSpec> {
    let zb = if max_zero_blocks == 0 { Just(0usize).boxed() } else { prop_oneof![8 => 0..=max_zero_blocks, 1 => (max_zero_blocks + 1)..=(max_zero_blocks + 12), 1 => 13usize..=70, 1 => 1000usize..=3000].boxed() };
    (zb, vec(any::<u8>(), 0..=2 * block + 3), any::<u64>(), 0u8..4, proptest::bool::weighted(0.3))
        .prop_map(move |(zb, mut tail, salt, mode, words_differ)| {
            let mut prefix = vec![0u8; zb * block];
            match mode {
                0 => {}                                      // random tail
                1 => tail.iter_mut().for_each(|b| *b = 0xff), // dense
                2 => {
                    // almost zero block: exactly one bit set in the first block after the zero blocks
                    let n = tail.len();
                    let keep = tail.first().copied().unwrap_or(1) as usize;
                    tail.iter_mut().for_each(|b| *b = 0);
                    if n > 0 {
                        let pos = keep % n.min(block.max(1));
                        tail[pos] = 0x80;
                    }
                }
                _ => tail.truncate(tail.len() / 3),
            }
            prefix.extend_from_slice(&tail);
            SrcSpec { prefix, salt, words_differ, call_block: 0 }
        })
        .boxed()
}

// ---------------------------------------------------------------------------------------------
// timers

/// One segment of a delta program.
#[derive(Clone, Debug, PartialEq, Eq, Serialize, Deserialize)]
pub enum Seg {
    /// n small jittering deltas in [lo, lo+spread]
    Jitter { n: usize, lo: u64, spread: u64 },
    /// n equal deltas (first difference 0)
    Equal { n: usize, d: u64 },
    /// n deltas in arithmetic progression (second difference 0)
    Arith { n: usize, d0: u64, step: u64 },
    /// n zero deltas (same reading)
    Zero { n: usize },
    /// explicit deltas (two's complement, added wrapping)
    Lit(Vec<u64>),
    /// measurement-level program for one collection: `deltas` are the *measured* deltas (time
    /// stamp to time stamp); each is split over the readings of one measurement (the priming
    /// measurement spans two readings after the collection's first reading, every later one
    /// three), so that stuck patterns occur between measurements when a collection starts at
    /// this segment
    Measured { deltas: Vec<u64>, split: u64 },
}

#[derive(Clone, Debug, PartialEq, Eq, Serialize, Deserialize)]
pub struct TimerProg {
    pub start: u64,
    pub segs: Vec<Seg>,
    pub salt: u64,
}

impl TimerProg {
    pub fn script(&self) -> Script {
        let mut t = self.start;
        let mut r = vec![t];
        let mut z = self.salt | 1;
        let mut nextz = move || {
            z ^= z << 13;
            z ^= z >> 7;
            z ^= z << 17;
            z
        };
        for s in &self.segs {
            match s {
                Seg::Jitter { n, lo, spread } => {
                    for _ in 0..*n {
                        t = t.wrapping_add(lo + nextz() % (spread + 1));
                        r.push(t);
                    }
                }
                Seg::Equal { n, d } => {
                    for _ in 0..*n {
                        t = t.wrapping_add(*d);
                        r.push(t);
                    }
                }
                Seg::Arith { n, d0, step } => {
                    let mut d = *d0;
                    for _ in 0..*n {
                        t = t.wrapping_add(d);
                        r.push(t);
                        d = d.wrapping_add(*step);
                    }
                }
                Seg::Zero { n } => {
                    for _ in 0..*n {
                        r.push(t);
                    }
                }
                Seg::Lit(ds) => {
                    for d in ds {
                        t = t.wrapping_add(*d);
                        r.push(t);
                    }
                }
                Seg::Measured { deltas, split } => {
                    let mut z = split | 1;
                    for (k, d) in deltas.iter().enumerate() {
                        // parts a + b (+ c) = d (wrapping), small random a, c
                        z ^= z << 13;
                        z ^= z >> 7;
                        z ^= z << 17;
                        let a = z % 40;
                        let c = (z >> 8) % 40;
                        if k == 0 {
                            // collection start: [prev] then loop-count reading, time stamp
                            t = t.wrapping_add(a);
                            r.push(t);
                            t = t.wrapping_add(d.wrapping_sub(a));
                            r.push(t);
                        } else {
                            // loop-count reading of the previous measurement's LFSR source, loop
                            // count of this one's memory source, time stamp
                            t = t.wrapping_add(a);
                            r.push(t);
                            t = t.wrapping_add(c);
                            r.push(t);
                            t = t.wrapping_add(d.wrapping_sub(a).wrapping_sub(c));
                            r.push(t);
                        }
                    }
                    // the last measurement's trailing loop-count reading
                    t = t.wrapping_add(3);
                    r.push(t);
                }
            }
        }
        Script::new(r, self.salt)
    }
    pub fn hostile(&self) -> bool {
        self.segs.iter().any(|s| match s {
            Seg::Lit(ds) => ds.iter().any(|&d| {
                let lo = d as u32;
                d >= (1 << 30) || lo == 0
            }),
            Seg::Zero { .. } => true,
            Seg::Measured { deltas, .. } => deltas.iter().any(|&d| d >= (1 << 30) || d as u32 == 0),
            _ => false,
        }) || self.start > u64::MAX - (1 << 40)
    }
}

/// hostile single deltas: near ±2^31, 2^32 multiples, backwards, huge
pub fn hostile_delta() -> BoxedStrategy<u64> {
    prop_oneof![
        3 => (-3i64..=3).prop_map(|k| ((1i64 << 31) + k) as u64),
        3 => (-3i64..=3).prop_map(|k| (-(1i64 << 31) + k) as u64),
        3 => (-3i64..=3).prop_map(|k| ((1i64 << 32) + k) as u64),
        2 => (1u64..=4).prop_map(|k| k << 32),
        // every power-of-two boundary, both directions (incl. exactly +-2^63)
        3 => (20u32..64, -2i64..=2, any::<bool>()).prop_map(|(k, e, neg)| {
            let v = (1u64 << k).wrapping_add(e as u64);
            if neg { v.wrapping_neg() } else { v }
        }),
        2 => (1u64..5000).prop_map(|k| (k as i64).wrapping_neg() as u64),
        1 => any::<u64>(),
        2 => any::<u32>().prop_map(|v| v as u64),
        2 => (0u64..4, any::<u32>()).prop_map(|(h, l)| (h << 32) | l as u64),
        1 => Just(0u64),
    ]
    .boxed()
}

pub fn seg(hostile: bool) -> BoxedStrategy<Seg> {
    let jit = (1usize..=60, 1u64..=2000, 1u64..=500).prop_map(|(n, lo, spread)| Seg::Jitter { n, lo, spread });
    // mostly short; sometimes long runs (dozens of consecutive stuck measurements), rarely very
    // long ones (more than 256 consecutive stuck measurements inside one round: three readings
    // per measurement)
    let run = || prop_oneof![18 => 1usize..=12, 3 => 40usize..=130, 1 => 900usize..=1600];
    let eq = (run(), 1u64..=100_000).prop_map(|(n, d)| Seg::Equal { n, d });
    let ar = (run(), 1u64..=10_000, 1u64..=500).prop_map(|(n, d0, step)| Seg::Arith { n, d0, step });
    let zero = prop_oneof![18 => 1usize..=7, 3 => 30usize..=90, 1 => 900usize..=1600].prop_map(|n| Seg::Zero { n });
    let small_lit = vec(1u64..=3000, 1..=10).prop_map(Seg::Lit);
    if hostile {
        let lit = vec(prop_oneof![2 => hostile_delta(), 1 => 1u64..=3000], 1..=8).prop_map(Seg::Lit);
        prop_oneof![8 => jit, 2 => eq, 2 => ar, 2 => zero, 2 => small_lit, 4 => lit].boxed()
    } else {
        prop_oneof![8 => jit, 2 => eq, 2 => ar, 2 => zero, 3 => small_lit].boxed()
    }
}

/// measured-delta vocabulary that exercises the stuck test between measurements: repeats of the
/// previous delta (first difference 0), continuation of an arithmetic progression (second
/// difference 0), zero deltas, fresh values, and (hostile) deltas around +-2^31 / 2^32
pub fn measured_seg(hostile: bool) -> BoxedStrategy<Seg> {
    let step = prop_oneof![
        6 => (1u64..=3000).prop_map(|v| (0u8, v)),
        3 => Just((1u8, 0u64)),          // same as previous
        2 => Just((2u8, 0u64)),          // continue the progression
        2 => Just((3u8, 0u64)),          // zero delta
        1 => Just((4u8, 0u64)),          // same as the one before the previous
        1 => (10u64..=40).prop_map(|k| (5u8, k)), // a long run of repeats of the previous delta
        if hostile { 2 } else { 0 } => hostile_delta().prop_map(|v| (0u8, v)),
    ];
    (vec(step, 2..=40), any::<u64>())
        .prop_map(|(steps, split)| {
            let mut deltas: Vec<u64> = Vec::new();
            for (kind, v) in steps {
                let n = deltas.len();
                if kind == 5 {
                    let d = if n >= 1 { deltas[n - 1] } else { 777 };
                    for _ in 0..v {
                        deltas.push(d);
                    }
                    continue;
                }
                let d = match kind {
                    1 if n >= 1 => deltas[n - 1],
                    2 if n >= 2 => deltas[n - 1].wrapping_add(deltas[n - 1].wrapping_sub(deltas[n - 2])),
                    3 => 0,
                    4 if n >= 2 => deltas[n - 2],
                    0 => v,
                    _ => 100 + n as u64,
                };
                deltas.push(d);
            }
            Seg::Measured { deltas, split }
        })
        .boxed()
}

pub fn timer_prog(hostile: bool, max_segs: usize) -> BoxedStrategy<TimerProg> {
    let start = prop_oneof![
        4 => 1u64..=1_000_000_000_000,
        1 => Just(0u64),
        1 => (0u64..100_000).prop_map(|k| u64::MAX - k),
        1 => (0u64..100_000).prop_map(|k| (1u64 << 32) - 50_000 + k),
        1 => any::<u64>(),
    ];
    let segs = prop_oneof![
        3 => vec(seg(hostile), 0..=max_segs),
        // measurement-level programs first, so that the first collections start on them
        2 => (vec(measured_seg(hostile), 1..=3), vec(seg(hostile), 0..=max_segs / 2)).prop_map(|(mut m, rest)| {
            m.extend(rest);
            m
        }),
    ];
    (start, segs, any::<u64>()).prop_map(|(start, segs, salt)| TimerProg { start, segs, salt }).boxed()
}

// ---------------------------------------------------------------------------------------------
// generator specifications

pub fn det_spec(ty: Ty, allow_zero: bool) -> BoxedStrategy<GenSpec> {
    prop_oneof![
        6 => seed_for(ty, allow_zero).prop_map(move |s| GenSpec::Det { ty, ctor: Ctor::Seed(s) }),
        1 => interesting_u64().prop_map(move |x| GenSpec::Det { ty, ctor: Ctor::U64(x) }),
    ]
    .boxed()
}

pub fn jitter_rounds() -> BoxedStrategy<u8> {
    prop_oneof![16 => 1u8..=4, 3 => 5u8..=16, 1 => Just(64u8), 1 => Just(255u8), 1 => 17u8..=255].boxed()
}

pub fn jitter_spec(hostile: bool) -> BoxedStrategy<GenSpec> {
    (timer_prog(hostile, 12), jitter_rounds())
        .prop_map(|(p, rounds)| GenSpec::Jitter { script: p.script(), rounds })
        .boxed()
}

/// any of the 19 deterministic types or a scripted JitterRng
pub fn any_spec(ty: Ty) -> BoxedStrategy<GenSpec> {
    if ty == Ty::Jitter {
        jitter_spec(true)
    } else {
        det_spec(ty, true)
    }
}

pub fn all_types_with_jitter() -> Vec<Ty> {
    let mut v = Ty::ALL.to_vec();
    v.push(Ty::Jitter);
    v
}
