//! serde helper: byte vectors as hex strings (compact, readable replay files)
use serde::{Deserialize, Deserializer, Serializer};

pub fn serialize<S: Serializer>(v: &Vec<u8>, s: S) -> Result<S::Ok, S::Error> {
    let mut out = String::with_capacity(v.len() * 2);
    for b in v {
        out.push_str(&format!("{:02x}", b));
    }
    s.serialize_str(&out)
}

pub fn deserialize<'de, D: Deserializer<'de>>(d: D) -> Result<Vec<u8>, D::Error> {
    let s = String::deserialize(d)?;
    if s.len() % 2 != 0 {
        return Err(serde::de::Error::custom("odd hex length"));
    }
    (0..s.len() / 2)
        .map(|i| u8::from_str_radix(&s[2 * i..2 * i + 2], 16).map_err(serde::de::Error::custom))
        .collect()
}

pub fn hex(v: &[u8]) -> String {
    v.iter().map(|b| format!("{:02x}", b)).collect()
}
