//! C11 — serde snapshot at any point restores a generator with the identical future.

use super::PropDef;
use crate::adapter::{self, Gen, Ty};
use crate::engine::{CaseInfo, CheckResult, Ctx, Fail, PSub, SubCheck};
use crate::gens::{self, GenSpec, Op};
use crate::ops::{apply, fmt_val};
use proptest::prelude::*;
use serde::{Deserialize, Serialize};

#[derive(Clone, Debug, Serialize, Deserialize)]
pub struct Case {
    pub spec: GenSpec,
    pub pre: usize,
    pub hist: Vec<Op>,
    /// true = serde_json, false = bincode
    pub json: bool,
    pub cont: Vec<Op>,
}

fn run(g: &mut dyn Gen, pre: usize, ops: &[Op]) {
    for _ in 0..pre {
        g.next_native();
    }
    for op in ops {
        apply(g, op);
    }
}

pub fn check(c: &Case) -> CheckResult {
    let ty = c.spec.ty();
    let info = ty.info();
    let fmt = if c.json { "json" } else { "bincode" };
    let mut o = c.spec.build();
    let mut w = c.spec.build();
    run(&mut *o, c.pre, &c.hist);
    run(&mut *w, c.pre, &c.hist);
    let mut r: Box<dyn Gen> = if c.json {
        let s1 = o.json().ok_or_else(|| Fail::inconclusive("C11:no-serde", "type has no serde"))?;
        let s2 = o.json().unwrap();
        if s1 != s2 {
            return Err(Fail::new(format!("C11:unstable-image:{}", info.name), "serializing twice gives different images"));
        }
        // the same text through serde_json's reader and Value entry points (owned instead of
        // borrowed strings, a tree instead of a stream): each must restore the same generator
        for (how, what) in [(0u8, "json-reader"), (1u8, "json-value")] {
            let alt = adapter::from_json_alt(ty, &s1, how).map_err(|e| Fail::new(format!("C11:deserialize-failed:{}:{}", info.name, what), format!("cannot deserialize the generator's own image ({}): {}", what, e)))?;
            let mut a = alt;
            let mut oc = o.clone_box();
            for k in 0..3 {
                let (x, y) = (oc.next_native(), a.next_native());
                if x != y {
                    return Err(Fail::new(format!("C11:restored-future:{}:{}", info.name, what), format!("generator restored through {} differs from the original at native word {}", what, k)));
                }
            }
        }
        adapter::from_json(ty, &s1).map_err(|e| Fail::new(format!("C11:deserialize-failed:{}:{}", info.name, fmt), format!("cannot deserialize the generator's own image: {}", e)))?
    } else {
        let b1 = o.bincode().ok_or_else(|| Fail::inconclusive("C11:no-serde", "type has no serde"))?;
        adapter::from_bincode(ty, &b1).map_err(|e| Fail::new(format!("C11:deserialize-failed:{}:{}", info.name, fmt), format!("cannot deserialize the generator's own image: {}", e)))?
    };
    if info.eq && r.eq_dyn(&*o) != Some(true) {
        return Err(Fail::new(format!("C11:restored-ne:{}:{}", info.name, fmt), "the restored generator does not compare equal to the original"));
    }
    let mut crossed = 0usize;
    for (k, op) in c.cont.iter().enumerate() {
        let vo = apply(&mut *o, op);
        let vr = apply(&mut *r, op);
        let vw = apply(&mut *w, op);
        if vo != vr {
            return Err(Fail::new(format!("C11:restored-future:{}:{}", info.name, fmt), format!("restored generator differs from the original at continuation op #{} {:?}", k, op))
                .exp_act(vo.map(|v| fmt_val(&v)), vr.map(|v| fmt_val(&v))));
        }
        if vo != vw {
            return Err(Fail::new(format!("C11:original-disturbed:{}:{}", info.name, fmt), format!("the serialized original differs from a never-serialized twin at continuation op #{} {:?}", k, op))
                .exp_act(vw.map(|v| fmt_val(&v)), vo.map(|v| fmt_val(&v))));
        }
        if let Op::Fill(n) = op {
            crossed += n / (info.word as usize / 8);
        } else {
            crossed += 2;
        }
    }
    for k in 0..3 {
        let (x, y, z) = (o.next_native(), r.next_native(), w.next_native());
        if x != y || x != z {
            return Err(Fail::new(format!("C11:restored-future:{}:{}", info.name, fmt), format!("native word {} after the continuation differs (original {:#x}, restored {:#x}, twin {:#x})", k, x, y, z)));
        }
    }
    if info.eq && r.eq_dyn(&*o) != Some(true) {
        return Err(Fail::new(format!("C11:restored-ne-after:{}:{}", info.name, fmt), "restored and original are unequal after the same continuation"));
    }
    let fresh = c.pre == 0 && c.hist.is_empty();
    Ok(CaseInfo::new(!fresh && !c.cont.is_empty())
        .class(c.spec.class())
        .class(format!("format:{}", fmt))
        .class_if(c.hist.last() == Some(&Op::U32) && info.word == 64, "snapshot-after-u32")
        .class_if(c.hist.iter().any(|o| matches!(o, Op::Jump | Op::LongJump)), "after-jump")
        .class_if(info.block > 0 && crossed >= info.block, "cont-crosses-refill"))
}

pub fn def(ctx: &Ctx) -> PropDef {
    let t = ctx.tier;
    let mut subs: Vec<Box<dyn SubCheck>> = Vec::new();
    for ty in Ty::with_serde() {
        let info = ty.info();
        let hl = t.pick(14, 40);
        subs.push(PSub::boxed(
            format!("snapshot/{}", ty.name()),
            t.pick(4000, 400_000),
            move || {
                (gens::det_spec(ty, true), gens::pre_advance(&info), gens::ops(&info, hl, 600, true), any::<bool>(), gens::ops(&info, hl, 2600, true))
                    .prop_map(|(spec, pre, hist, json, cont)| Case { spec, pre, hist, json, cont })
                    .boxed()
            },
            check,
        ));
    }
    if ctx.tier == crate::engine::Tier::Thorough {
        subs.push(crate::props::fuzzsub::FuzzSub::boxed("fz_hist", "C11", 300000, false));
        subs.push(crate::props::fuzzsub::FuzzSub::boxed("fz_hist", "C11", 300000, true));
    }
    PropDef {
        id: "C11",
        rule: "cases = 18 serializable types x constructor x pre-advance (every buffer index: 0, mid-block, last word, exhausted) x history (incl. jumps, possibly ending in a half-consumed Isaac64Rng word) x format {bincode, serde_json} x continuation; oracle: restored == original (where == exists), and original, restored and a never-serialized twin return identical values over the continuation (which crosses a block refill in a measured share of cases) and 3 further native words. Non-trivial = snapshot not at the initial configuration and non-empty continuation; distinct by hash of the case.".into(),
        explanation: None,
        assumptions: vec!["bincode 1.3 and serde_json as the two serde back-ends (a non-self-describing and a self-describing format)".into()],
        subs,
    }
}
