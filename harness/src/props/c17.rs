//! C17 — Debug output of state-hiding generators never depends on seed or state.

use super::PropDef;
use crate::adapter::{self, Gen, Ty};
use crate::engine::{CaseInfo, CheckResult, Ctx, Fail, PSub, SubCheck};
use crate::gens::{self, GenSpec, Op};
use crate::ops::apply;
use crate::refmodel::projection::Val;
use proptest::prelude::*;
use rand_core::block::BlockRngCore;
use rand_core::SeedableRng;
use serde::{Deserialize, Serialize};
use std::collections::HashSet;

#[derive(Clone, Debug, Serialize, Deserialize)]
pub struct PairCase {
    pub a: GenSpec,
    pub b: GenSpec,
    pub ops: Vec<Op>,
}

#[derive(Clone, Debug, Serialize, Deserialize)]
pub struct CoreCase {
    pub which: u8,
    pub a: gens::Seed,
    pub b: gens::Seed,
    pub blocks: usize,
}

/// numeric tokens of a text: decimal runs and hex runs (with or without 0x)
fn tokens(text: &str) -> Vec<u64> {
    // numeric tokens = whole alphanumeric words that are numbers: decimal digits, or hex digits
    // (optionally after 0x, at least five of them). A run of hex digits *inside* an identifier is
    // not a number: "Isaac64Core" contains "aac64C", which once coincided with a 24-bit half of an
    // output word and raised a false alarm in a thorough run (section 12).
    let mut out = Vec::new();
    for word in text.split(|c: char| !(c.is_ascii_alphanumeric() || c == '_')) {
        let w = word.strip_prefix("0x").or_else(|| word.strip_prefix("0X")).unwrap_or(word);
        let tok: String = w.chars().filter(|c| *c != '_').collect();
        if tok.is_empty() {
            continue;
        }
        if tok.chars().all(|c| c.is_ascii_digit()) {
            if let Ok(v) = tok.parse::<u64>() {
                out.push(v);
            }
        }
        if tok.len() >= 5 && tok.chars().all(|c| c.is_ascii_hexdigit()) {
            if let Ok(v) = u64::from_str_radix(&tok, 16) {
                out.push(v);
            }
        }
    }
    out
}

/// words that must never appear: upcoming outputs (buffered words), recent outputs, state
fn sensitive(g: &dyn Gen, recent: &[u64]) -> HashSet<u64> {
    let mut s: HashSet<u64> = recent.iter().copied().collect();
    if g.ty() != Ty::Jitter {
        let mut c = g.clone_box();
        let n = (g.ty().info().block * 2).max(8);
        for _ in 0..n {
            let w = c.next_native();
            s.insert(w);
            s.insert(w >> 32);
            s.insert(w & 0xffff_ffff);
        }
    }
    if let Some(img) = adapter::observe_state(g) {
        for w in img.chunks(4) {
            s.insert(u32::from_le_bytes([w[0], w[1], w[2], w[3]]) as u64);
        }
    }
    s.retain(|&w| w >= 1 << 20);
    s
}

fn leak(text: &str, sens: &HashSet<u64>) -> Option<u64> {
    tokens(text).into_iter().find(|t| sens.contains(t))
}

pub fn check_pair(c: &PairCase) -> CheckResult {
    let name = c.a.ty().name();
    let mut a = c.a.build();
    let mut b = c.b.build();
    let mut recent: Vec<u64> = Vec::new();
    let different = c.a != c.b;
    // public read position of the buffered generators, derived from the calls made so far: the
    // text must be the same whenever the position is the same, also at different times
    let info = c.a.ty().info();
    let block = info.block;
    let wb = (info.word / 8) as usize;
    let (mut consumed, mut pending, mut position_known) = (0usize, false, true);
    let mut by_position: std::collections::HashMap<(usize, bool), (String, String, usize)> = std::collections::HashMap::new();
    let mut revisits = 0usize;
    for k in 0..=c.ops.len() {
        let (da, db) = (a.debug(), b.debug());
        let (pa, pb) = (a.debug_alt(), b.debug_alt());
        if position_known {
            let key = if block == 0 { (0, false) } else { (if consumed == 0 { block } else { (consumed - 1) % block + 1 }, pending) };
            match by_position.get(&key) {
                Some((d0, p0, k0)) => {
                    revisits += 1;
                    if *d0 != da || *p0 != pa {
                        return Err(Fail::new(format!("C17:depends-on-history:{}", name), format!("Debug text differs between two moments with the same public read position (after {} and after {} ops): it depends on internal state", k0, k)).exp_act(if *d0 != da { d0.clone() } else { p0.clone() }, if *d0 != da { da.clone() } else { pa.clone() }));
                    }
                }
                None => {
                    by_position.insert(key, (da.clone(), pa.clone(), k));
                }
            }
        }
        if da != db || pa != pb {
            return Err(Fail::new(format!("C17:depends-on-seed:{}", name), format!("Debug text differs between two generators with different seeds and the same history (after {} ops)", k)).exp_act(da, db));
        }
        let sens = sensitive(&*a, &recent);
        for text in [&da, &pa] {
            if let Some(w) = leak(text, &sens) {
                return Err(Fail::new(format!("C17:leaks-word:{}", name), format!("Debug text contains the state/output word {:#x} (after {} ops): {}", w, k, text)));
            }
        }
        if k < c.ops.len() {
            match &c.ops[k] {
                Op::U32 if info.word == 64 && block > 0 => {
                    if pending {
                        pending = false;
                    } else {
                        consumed += 1;
                        pending = true;
                    }
                }
                Op::U32 => consumed += 1,
                Op::U64 => {
                    consumed += if info.word == 32 { 2 } else { 1 };
                    pending = false;
                }
                Op::Fill(n) => {
                    consumed += (*n + wb - 1) / wb;
                    pending = false;
                }
                _ => {}
            }
            if let Some(v) = apply(&mut *a, &c.ops[k]) {
                match v {
                    Val::U32(x) => recent.push(x as u64),
                    Val::U64(x) => {
                        recent.push(x);
                        recent.push(x >> 32);
                        recent.push(x & 0xffff_ffff);
                    }
                    Val::Bytes(bs) => {
                        for w in bs.chunks_exact(4).take(16) {
                            recent.push(u32::from_le_bytes([w[0], w[1], w[2], w[3]]) as u64);
                        }
                    }
                }
                if recent.len() > 64 {
                    let cut = recent.len() - 64;
                    recent.drain(..cut);
                }
            }
            apply(&mut *b, &c.ops[k]);
        }
    }
    Ok(CaseInfo::new(different && !c.ops.is_empty())
        .class(name)
        .class_if(c.ops.last() == Some(&Op::U32), "ends-on-u32")
        .class_if(revisits > 0, "position-revisited")
        .class_if(block > 0 && consumed > 64 * block.min(16), "beyond-64-blocks"))
}

/// JitterRng over its whole public API: two instances with different timers, round counts,
/// histories (output calls, timer_stats, set_rounds, test_timer, clones) and pool contents (preset
/// through the cfg(rngs_verif) hook: zero, all ones, single bits, ...). JitterRng's only public
/// read position is "a half is pending or not"; whenever the two agree on that, the texts must be
/// identical, and the text never contains the pool.
#[derive(Clone, Debug, Serialize, Deserialize)]
pub struct JitApiCase {
    pub a: (gens::TimerProg, u8, Option<u64>, Vec<crate::props::c12::JOp>),
    pub b: (gens::TimerProg, u8, Option<u64>, Vec<crate::props::c12::JOp>),
}

pub fn check_jit_api(c: &JitApiCase) -> CheckResult {
    use crate::props::c12::JOp;
    let build = |s: &(gens::TimerProg, u8, Option<u64>, Vec<JOp>)| {
        let mut g = adapter::jitter_gen(s.0.script(), if s.1 == 0 { None } else { Some(s.1) }, 3_000_000);
        if let Some(p) = s.2 {
            g.jitter().unwrap().set_pool(p);
        }
        g
    };
    let (mut a, mut b) = (build(&c.a), build(&c.b));
    let step = |g: &mut Box<dyn Gen>, pending: &mut bool, op: &JOp| {
        match op {
            JOp::U32 => {
                g.next_u32();
                *pending = !*pending;
            }
            JOp::U64 => {
                g.next_u64();
                *pending = false;
            }
            JOp::Fill(n) => {
                crate::ops::fill_unaligned(&mut **g, *n);
                match n % 8 {
                    0 => {
                        if *n > 0 {
                            *pending = false
                        }
                    }
                    5..=7 => *pending = false,
                    _ => *pending = if n / 8 > 0 { true } else { !*pending },
                }
            }
            JOp::Stats(v) => {
                g.jitter().unwrap().timer_stats(*v);
            }
            JOp::Rounds(r) => g.jitter().unwrap().set_rounds((*r).max(1)),
            JOp::TestTimer => {
                let _ = g.jitter().unwrap().test_timer();
            }
            JOp::Clone => {
                *g = g.clone_box();
                *pending = false;
            }
        }
    };
    let (mut pa, mut pb) = (false, false);
    let n = c.a.3.len().max(c.b.3.len());
    let mut compared = 0;
    for k in 0..=n {
        if pa == pb {
            compared += 1;
            let (da, db, xa, xb) = (a.debug(), b.debug(), a.debug_alt(), b.debug_alt());
            if da != db || xa != xb {
                let (e, g) = if da != db { (da, db) } else { (xa, xb) };
                return Err(Fail::new("C17:depends-on-state:JitterRng", format!("Debug text differs between two JitterRng instances at the same public read position (half pending: {}) after {} steps of different histories: it depends on timer, configuration or pool", pa, k)).exp_act(e, g));
            }
        }
        for g in [&mut a, &mut b] {
            if let Some(pool) = g.jitter().and_then(|j| j.pool()) {
                if pool >= 1 << 20 {
                    let mut sens = HashSet::new();
                    sens.insert(pool);
                    sens.insert(pool >> 32);
                    sens.insert(pool & 0xffff_ffff);
                    sens.retain(|v| *v >= 1 << 20);
                    for text in [g.debug(), g.debug_alt()] {
                        if let Some(w) = leak(&text, &sens) {
                            return Err(Fail::new("C17:leaks-word:JitterRng", format!("Debug text contains (half of) the entropy pool {:#x}: {}", w, text)));
                        }
                    }
                }
            }
        }
        if k < n {
            if let Some(op) = c.a.3.get(k) {
                step(&mut a, &mut pa, op);
            }
            if let Some(op) = c.b.3.get(k) {
                step(&mut b, &mut pb, op);
            }
        }
    }
    Ok(CaseInfo::new(compared >= 2 && (c.a.1 != c.b.1 || c.a.2 != c.b.2)).class_if(c.a.1 != c.b.1, "different-rounds").class_if(c.a.2.is_some() || c.b.2.is_some(), "pool-preset").class_if(c.a.2 == Some(0) || c.b.2 == Some(0), "zero-pool"))
}

/// states that only `Deserialize` can produce: the serde image of a generator with one numeric
/// field of the *state* set to 0 or to its maximum, or all of them set to 0 (read position fields
/// `index` / `half_used` untouched). Such a generator is at the same public read position as the
/// one the image was taken from, so the two must print the same text.
#[derive(Clone, Debug, Serialize, Deserialize)]
pub struct CraftCase {
    pub spec: GenSpec,
    pub pre: usize,
    pub field: usize,
    /// 0 = one field to 0, 1 = one field to its maximum, 2 = every state field to 0
    pub mode: u8,
}

pub fn check_crafted(c: &CraftCase) -> CheckResult {
    let ty = c.spec.ty();
    let info = ty.info();
    let mut g = c.spec.build();
    for _ in 0..c.pre {
        g.next_native();
    }
    let js = match g.json() {
        Some(j) => j,
        None => return Ok(CaseInfo::new(false).class("no-serde")),
    };
    let mut v: serde_json::Value = serde_json::from_str(&js).map_err(|e| Fail::inconclusive("C17:json", e.to_string()))?;
    fn walk<'a>(v: &'a mut serde_json::Value, key: &str, out: &mut Vec<&'a mut serde_json::Value>) {
        match v {
            serde_json::Value::Number(_) if key != "index" && key != "half_used" => out.push(v),
            serde_json::Value::Array(a) => a.iter_mut().for_each(|x| walk(x, key, out)),
            serde_json::Value::Object(m) => {
                for (k, x) in m.iter_mut() {
                    let k = k.clone();
                    walk(x, &k, out);
                }
            }
            _ => {}
        }
    }
    let mut leaves = Vec::new();
    walk(&mut v, "", &mut leaves);
    if leaves.is_empty() {
        return Ok(CaseInfo::new(false).class("no-numeric-leaves"));
    }
    let wide = info.word == 64;
    let n = leaves.len();
    match c.mode % 3 {
        0 => *leaves[c.field % n] = serde_json::Value::from(0u64),
        1 => *leaves[c.field % n] = serde_json::Value::from(if wide { u64::MAX } else { u32::MAX as u64 }),
        _ => leaves.iter_mut().for_each(|l| **l = serde_json::Value::from(0u64)),
    }
    let r = match adapter::from_json(ty, &v.to_string()) {
        Ok(r) => r,
        Err(_) => return Ok(CaseInfo::new(false).class("rejected-by-deserialize")),
    };
    if g.debug() != r.debug() || g.debug_alt() != r.debug_alt() {
        let (e, a) = if g.debug() != r.debug() { (g.debug(), r.debug()) } else { (g.debug_alt(), r.debug_alt()) };
        return Err(Fail::new(format!("C17:depends-on-state:{}", ty.name()), "Debug text differs between a generator and one restored from its serde image with state fields overwritten (same read position, other state)").exp_act(e, a));
    }
    Ok(CaseInfo::new(true).class(ty.name()).class(match c.mode % 3 {
        0 => "one-field-zero",
        1 => "one-field-max",
        _ => "all-state-fields-zero",
    }))
}

pub fn check_core(c: &CoreCase) -> CheckResult {
    macro_rules! go {
        ($Core:ty, $name:expr) => {{
            let mut sa = [0u8; 32];
            sa.copy_from_slice(&c.a.bytes);
            let mut sb = [0u8; 32];
            sb.copy_from_slice(&c.b.bytes);
            let mut a = <$Core>::from_seed(sa);
            let mut b = <$Core>::from_seed(sb);
            let mut ra = <$Core as BlockRngCore>::Results::default();
            let mut rb = <$Core as BlockRngCore>::Results::default();
            let first = (format!("{:?}", a), format!("{:#?}", a));
            for k in 0..=c.blocks {
                let (da, db) = (format!("{:?}", a), format!("{:#?}", a).len());
                let _ = db;
                let (da, db) = (da, format!("{:?}", b));
                let (pa, pb) = (format!("{:#?}", a), format!("{:#?}", b));
                if (da.clone(), pa.clone()) != first {
                    return Err(Fail::new(format!("C17:depends-on-history:{}", $name), format!("Debug text of the core changes over time (after {} blocks): a core has no public read position, the text depends on internal state", k)).exp_act(&first.1, &pa));
                }
                if da != db || pa != pb {
                    return Err(Fail::new(format!("C17:depends-on-seed:{}", $name), format!("Debug text of the core differs between seeds (after {} blocks)", k)).exp_act(da, db));
                }
                let sens: HashSet<u64> = ra.as_ref().iter().map(|w| *w as u64).filter(|w| *w >= 1 << 20).collect();
                for text in [&da, &pa] {
                    if let Some(w) = leak(text, &sens) {
                        return Err(Fail::new(format!("C17:leaks-word:{}", $name), format!("Debug text contains the output word {:#x}", w)));
                    }
                }
                a.generate(&mut ra);
                b.generate(&mut rb);
            }
            Ok(CaseInfo::new(c.a.bytes != c.b.bytes).class($name))
        }};
    }
    match c.which % 3 {
        0 => go!(rand_hc::Hc128Core, "Hc128Core"),
        1 => go!(rand_isaac::isaac::IsaacCore, "IsaacCore"),
        _ => go!(rand_isaac::isaac64::Isaac64Core, "Isaac64Core"),
    }
}

pub fn def(ctx: &Ctx) -> PropDef {
    let t = ctx.tier;
    let mut subs: Vec<Box<dyn SubCheck>> = Vec::new();
    for ty in [Ty::XorShift, Ty::Hc128, Ty::Isaac, Ty::Isaac64, Ty::Jitter] {
        let info = ty.info();
        let (n, big) = if ty == Ty::Jitter { (8, 40) } else { (14, 6000) };
        subs.push(PSub::boxed(
            format!("pairs/{}", ty.name()),
            t.pick(if ty == Ty::Jitter { 1200 } else { 3000 }, 200_000),
            move || {
                (gens::any_spec(ty), gens::any_spec(ty), gens::ops(&info, n, big, false))
                    .prop_map(move |(a, mut b, ops)| {
                        // JitterRng: same round count, different timers
                        if let (GenSpec::Jitter { rounds, .. }, GenSpec::Jitter { rounds: rb, .. }) = (&a, &mut b) {
                            *rb = *rounds;
                        }
                        PairCase { a, b, ops }
                    })
                    .boxed()
            },
            check_pair,
        ));
    }
    for ty in [Ty::XorShift, Ty::Isaac, Ty::Isaac64] {
        let info = ty.info();
        subs.push(PSub::boxed(
            format!("crafted-states/{}", ty.name()),
            t.pick(400, 40_000),
            move || (gens::det_spec(ty, true), gens::pre_advance(&info), 0usize..4096, 0u8..3).prop_map(|(spec, pre, field, mode)| CraftCase { spec, pre, field, mode }).boxed(),
            check_crafted,
        ));
    }
    subs.push(PSub::boxed(
        "jitter-api-pairs",
        t.pick(1500, 150_000),
        || {
            let side = || {
                let ops = proptest::collection::vec(prop_oneof![8 => crate::props::c12::jop(20), 1 => Just(crate::props::c12::JOp::TestTimer), 1 => Just(crate::props::c12::JOp::Clone)], 0..=6);
                let rounds = prop_oneof![2 => Just(0u8), 6 => 1u8..=6, 1 => Just(64u8), 1 => 7u8..=255];
                (gens::timer_prog(false, 6), rounds, proptest::option::weighted(0.5, crate::props::c12::structured_value()), ops)
            };
            (side(), side()).prop_map(|(a, b)| JitApiCase { a, b }).boxed()
        },
        check_jit_api,
    ));
    subs.push(PSub::boxed(
        "cores",
        t.pick(4000, 300_000),
        || (0u8..3, gens::seed_for(Ty::Isaac, true), gens::seed_for(Ty::Isaac, true), prop_oneof![3 => 0usize..=4, 1 => 60usize..=140]).prop_map(|(which, a, b, blocks)| CoreCase { which, a, b, blocks }).boxed(),
        check_core,
    ));
    PropDef {
        id: "C17",
        rule: "cases = pairs of generators of the same state-hiding type (XorShiftRng, Hc128Rng, IsaacRng, Isaac64Rng, scripted JitterRng; cores Hc128Core, IsaacCore, Isaac64Core) built from two generated seeds / timers and driven by the same generated history; after every operation {:?} and {:#?} of the two must be byte-identical (same history => same public read position), the text must also be identical between two moments of one history at which the public read position (derived from the calls made) is the same, and constant over time for the cores, XorShiftRng and JitterRng; crafted-states: for the state-hiding types with serde (XorShiftRng, IsaacRng, Isaac64Rng) a generator restored from its own serde image with one state field set to 0 or its maximum, or all state fields set to 0 (read position fields untouched), must print the same text as the original; jitter-api-pairs: two JitterRng with different timers, round counts (incl. the initial one), pool contents (preset through the hook: zero, all ones, single bits, half words) and different histories over the whole public API (output calls, timer_stats, set_rounds, test_timer, clones) must print identical text whenever they agree on the only public read position JitterRng has (a half pending or not), and the text must not contain the pool (histories reach beyond 64 blocks / 1024 words of HC-128), and no decimal or hex token of the text may equal a state word, an upcoming buffered word or one of the last outputs if that word is >= 2^20 (small numbers legitimately appear as index / result_len). The text itself is not pinned. Non-trivial = the two seeds differ and >= 1 operation was applied; distinct by hash of the case.".into(),
        explanation: None,
        assumptions: vec![
            "buffered words are observed as the upcoming outputs of a clone; XorShiftRng state through its validated serde image".into(),
            "the public read position at which two moments of one history are compared is derived from the calls made by C05's consumption rules; a change that breaks C05 (words consumed per call, pending half) can therefore surface here as well".into(),
        ],
        subs,
    }
}
