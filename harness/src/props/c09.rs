//! C09 — all seeding routes agree: seed_from_u64, from_rng and try_from_rng.

use super::PropDef;
use crate::adapter::{self, Engine, Gen, Ty};
use crate::engine::{CaseInfo, CheckResult, Ctx, Fail, PSub, SubCheck};
use crate::gens;
use crate::refmodel::isaac::{Isaac, Isaac64};
use crate::refmodel::stream::WordModel;
use crate::src::{ByteSrc, FailSrc, SrcErr, SrcSpec};
use proptest::prelude::*;
use serde::{Deserialize, Serialize};

#[derive(Clone, Debug, Serialize, Deserialize)]
pub struct U64Case {
    pub ty: Ty,
    pub x: u64,
    pub words: usize,
}

#[derive(Clone, Debug, Serialize, Deserialize)]
pub struct SrcCase {
    pub ty: Ty,
    pub spec: SrcSpec,
    /// None: infallible from_rng and non-failing try_from_rng; Some(j): try_from_rng over a
    /// source that fails at byte j
    pub fail_at: Option<usize>,
    pub token: u64,
    pub words: usize,
}

fn compare_stream(name: &str, sig: &str, g: &mut dyn Gen, m: &mut WordModel, n: usize) -> Result<(), Fail> {
    for k in 0..n {
        let got = g.next_native();
        let want = m.next();
        if got != want {
            return Err(Fail::new(format!("C09:{}:{}", sig, name), format!("native word {} differs from the generator the documented expansion defines", k)).exp_act(format!("{:#x}", want), format!("{:#x}", got)));
        }
    }
    Ok(())
}

pub fn check_u64(c: &U64Case) -> CheckResult {
    let info = c.ty.info();
    let mut g = adapter::seed_from_u64(c.ty, c.x);
    if info.eq {
        if let Some(exp) = WordModel::expansion(c.ty, c.x) {
            let via_seed = adapter::from_seed(c.ty, &exp);
            if g.eq_dyn(&*via_seed) != Some(true) {
                return Err(Fail::new(format!("C09:u64-eq:{}", info.name), "seed_from_u64(x) != from_seed(documented expansion of x)").exp_act(crate::hexser::hex(&exp), adapter::observe_state(&*g).map(|b| crate::hexser::hex(&b))));
            }
        }
    }
    let mut m = WordModel::seed_from_u64(c.ty, c.x);
    compare_stream(info.name, "u64-stream", &mut *g, &mut m, c.words)?;
    let star = 0u64.wrapping_sub(0x9e3779b97f4a7c15);
    Ok(CaseInfo::new(c.x != 0)
        .class_if(c.x == 0, "x=0")
        .class_if(c.x == star, "x=splitmix-zero-preimage")
        .class_if(c.x.count_ones() == 1, "x=2^k")
        .class_if(c.x > u32::MAX as u64, "x>2^32"))
}

/// bytes the constructor is documented to read from the source, and the model of the
/// generator those bytes define
fn model_from_source(ty: Ty, spec: &SrcSpec) -> (usize, WordModel) {
    let info = ty.info();
    match info.engine {
        Engine::Isaac => {
            let b = spec.bytes(0, 1024);
            let w: Vec<u32> = b.chunks(4).map(|c| u32::from_le_bytes([c[0], c[1], c[2], c[3]])).collect();
            (1024, WordModel::Isaac(Box::new(Isaac::new(&w, 2))))
        }
        Engine::Isaac64 => {
            let b = spec.bytes(0, 2048);
            let w: Vec<u64> = b.chunks(8).map(|c| u64::from_le_bytes([c[0], c[1], c[2], c[3], c[4], c[5], c[6], c[7]])).collect();
            (2048, WordModel::Isaac64(Box::new(Isaac64::new(&w, 2))))
        }
        Engine::XorShift128 => {
            let k = (0..).take_while(|k| spec.bytes(k * 16, 16).iter().all(|&b| b == 0)).count();
            ((k + 1) * 16, WordModel::from_seed_raw(ty, &spec.bytes(k * 16, 16)))
        }
        _ => (info.seed_len, WordModel::from_seed(ty, &spec.bytes(0, info.seed_len))),
    }
}

pub fn check_src(c: &SrcCase) -> CheckResult {
    let info = c.ty.info();
    let (need, mut model) = model_from_source(c.ty, &c.spec);
    let varied = c.spec.prefix.windows(2).any(|w| w[0] != w[1]) || c.spec.prefix.len() < need;
    match c.fail_at {
        None => {
            // from_rng
            let mut src = ByteSrc::new(c.spec.clone());
            let mut g = adapter::from_rng(c.ty, &mut src);
            if src.pos != need {
                return Err(Fail::new(format!("C09:from_rng-consumed:{}", info.name), "from_rng did not advance the source by exactly the documented amount").exp_act(need, src.pos));
            }
            // the source continues with the next unread byte
            let nxt = {
                use rand_core::RngCore;
                let mut b = [0u8; 4];
                src.fill_bytes(&mut b);
                u32::from_le_bytes(b)
            };
            let want_nxt = { let b = c.spec.bytes(need, 4); u32::from_le_bytes([b[0], b[1], b[2], b[3]]) };
            if nxt != want_nxt {
                return Err(Fail::new("C09:harness-source", "scripted source out of sync (harness fault)").exp_act(want_nxt, nxt));
            }
            // try_from_rng over the same, non-failing source: same generator, same consumption
            let mut fsrc = FailSrc::new(c.spec.clone(), None, c.token);
            let mut t = match adapter::try_from_rng(c.ty, &mut fsrc) {
                Ok(t) => t,
                Err(e) => return Err(Fail::new(format!("C09:try-spurious-error:{}", info.name), format!("try_from_rng returned {} for a source that does not fail", e))),
            };
            if fsrc.pos != need {
                return Err(Fail::new(format!("C09:try_from_rng-consumed:{}", info.name), "try_from_rng did not advance the source by exactly the documented amount").exp_act(need, fsrc.pos));
            }
            if info.eq && g.eq_dyn(&*t) != Some(true) {
                return Err(Fail::new(format!("C09:try-vs-from:{}", info.name), "try_from_rng and from_rng give different generators for the same source bytes"));
            }
            let mut tc = t.clone_box();
            compare_stream(info.name, "from_rng-stream", &mut *g, &mut model, c.words)?;
            // t against g's already verified stream: replay model afresh
            let (_, mut model2) = model_from_source(c.ty, &c.spec);
            compare_stream(info.name, "try_from_rng-stream", &mut *t, &mut model2, c.words)?;
            let _ = &mut tc;
            Ok(CaseInfo::new(varied).class("no-failure").class_if(c.spec.words_differ, "source-word-methods-differ").class_if(c.spec.call_block > 0, "source-hands-out-whole-blocks-per-call").class_if(need > info.seed_len.max(1) && info.engine == Engine::XorShift128, "xorshift-redraw"))
        }
        Some(j) => {
            let mut fsrc = FailSrc::new(c.spec.clone(), Some(j), c.token);
            let r = adapter::try_from_rng(c.ty, &mut fsrc);
            if j < need {
                match r {
                    Err(SrcErr(tok)) if tok == c.token => Ok(CaseInfo::new(j > 0)
                        .class("failure-propagated")
                        .class_if(info.engine == Engine::XorShift128 && j >= 16, "failure-during-redraw")),
                    Err(SrcErr(tok)) => Err(Fail::new(format!("C09:wrong-error:{}", info.name), "try_from_rng returned an error that is not the source's").exp_act(c.token, tok)),
                    Ok(_) => Err(Fail::new(format!("C09:error-swallowed:{}", info.name), format!("the source fails at byte {} (< {} needed) but try_from_rng returned a generator", j, need))),
                }
            } else {
                match r {
                    Ok(mut t) => {
                        if fsrc.pos != need {
                            return Err(Fail::new(format!("C09:try_from_rng-consumed:{}", info.name), "try_from_rng read beyond / short of the documented amount").exp_act(need, fsrc.pos));
                        }
                        compare_stream(info.name, "try_from_rng-stream", &mut *t, &mut model, c.words.min(64))?;
                        Ok(CaseInfo::new(j < need + 8).class("failure-after-read"))
                    }
                    Err(e) => Err(Fail::new(format!("C09:try-spurious-error:{}", info.name), format!("the source only fails at byte {} (>= {} needed) but try_from_rng returned {}", j, need, e))),
                }
            }
        }
    }
}

/// A real generator of the five crates as the source: the child must be built from exactly the
/// bytes ONE `fill_bytes(seed length)` call of the master delivers, and the master must be left
/// exactly where that one call leaves it (word-based masters serve short requests from
/// next_u32/next_u64, so splitting or merging requests changes both).
#[derive(Clone, Debug, Serialize, Deserialize)]
pub struct RealSrcCase {
    pub child: Ty,
    pub master: crate::ops::GenSpec,
    pub master_pre: usize,
    pub try_route: bool,
}

struct AsRng<'a>(&'a mut dyn Gen);
impl rand_core::RngCore for AsRng<'_> {
    fn next_u32(&mut self) -> u32 {
        self.0.next_u32()
    }
    fn next_u64(&mut self) -> u64 {
        self.0.next_u64()
    }
    fn fill_bytes(&mut self, dest: &mut [u8]) {
        self.0.fill(dest)
    }
}

pub fn check_real_src(c: &RealSrcCase) -> CheckResult {
    let info = c.child.info();
    let need = match info.engine {
        Engine::Isaac => 1024,
        Engine::Isaac64 => 2048,
        _ => info.seed_len,
    };
    let mut master = c.master.build();
    for _ in 0..c.master_pre {
        master.next_u32();
    }
    let mut reference = master.clone_box();
    let mut bytes = vec![0u8; need];
    reference.fill(&mut bytes);
    if info.linear && bytes[..info.seed_len].iter().all(|&b| b == 0) {
        return Ok(CaseInfo::new(false).class("zero-block-from-real-master"));
    }
    let mut child = if c.try_route {
        match adapter::try_from_rng(c.child, &mut AsRng(&mut *master)) {
            Ok(g) => g,
            Err(_) => return Err(Fail::new(format!("C09:try-spurious-error:{}", info.name), "try_from_rng failed on an infallible source")),
        }
    } else {
        adapter::from_rng(c.child, &mut AsRng(&mut *master))
    };
    let how = if c.try_route { "try_from_rng" } else { "from_rng" };
    // the master is where one fill_bytes(need) leaves it
    for k in 0..3 {
        let (x, y) = (master.next_u64(), reference.next_u64());
        if x != y {
            return Err(Fail::new(format!("C09:{}-source-position:{}", how, info.name), format!("{}({} as source) does not leave the source where one fill_bytes({}) call leaves it (word {} after)", how, c.master.ty().name(), need, k)));
        }
    }
    // the child is the generator those bytes define
    let src = SrcSpec { prefix: bytes, salt: 0, words_differ: false, call_block: 0 };
    let (_, mut model) = model_from_source(c.child, &src);
    compare_stream(info.name, &format!("{}-real-source", how), &mut *child, &mut model, 40)?;
    Ok(CaseInfo::new(true).class(format!("master:{}", c.master.ty().name())).class(how))
}

/// the public block cores have the same seeding routes as their `*Rng` wrappers (the wrappers
/// delegate to them, but each route can be overridden on either side): for a generated x, seed
/// or source, the core built through a route generates the blocks that the wrapper built through
/// the same route hands out
#[derive(Clone, Debug, Serialize, Deserialize)]
pub struct CoreRouteCase {
    /// 0 = Hc128Core, 1 = IsaacCore, 2 = Isaac64Core
    pub which: u8,
    /// 0 = seed_from_u64(x), 1 = from_seed(seed), 2 = from_rng(source), 3 = try_from_rng(source)
    pub route: u8,
    pub x: u64,
    pub spec: SrcSpec,
}

pub fn check_core_route(c: &CoreRouteCase) -> CheckResult {
    use rand_core::block::BlockRngCore;
    use rand_core::{SeedableRng, TryRngCore};
    macro_rules! go {
        ($Core:ty, $ty:expr, $conv:expr) => {{
            let ty: Ty = $ty;
            let len = ty.info().seed_len;
            let seed_bytes = c.spec.bytes(0, len);
            let (mut core, consumed_core): ($Core, usize) = match c.route % 4 {
                0 => (<$Core>::seed_from_u64(c.x), 0),
                1 => {
                    let mut seed = <$Core as SeedableRng>::Seed::default();
                    seed.as_mut().copy_from_slice(&seed_bytes);
                    (<$Core>::from_seed(seed), 0)
                }
                2 => {
                    let mut src = ByteSrc::new(c.spec.clone());
                    let k = <$Core>::from_rng(&mut src);
                    (k, src.pos)
                }
                _ => {
                    let mut src = FailSrc::new(c.spec.clone(), None, 7);
                    match <$Core>::try_from_rng(&mut src) {
                        Ok(k) => (k, src.pos),
                        Err(e) => return Err(Fail::new(format!("C09:spurious-error:{}", stringify!($Core)), format!("try_from_rng of the core failed on a source that never fails: {}", e))),
                    }
                }
            };
            let (mut rng, consumed_rng): (Box<dyn Gen>, usize) = match c.route % 4 {
                0 => (adapter::seed_from_u64(ty, c.x), 0),
                1 => (adapter::from_seed(ty, &seed_bytes), 0),
                2 => {
                    let mut src = ByteSrc::new(c.spec.clone());
                    let g = adapter::from_rng(ty, &mut src);
                    (g, src.pos)
                }
                _ => {
                    let mut src = FailSrc::new(c.spec.clone(), None, 7);
                    match adapter::try_from_rng(ty, &mut src) {
                        Ok(g) => (g, src.pos),
                        Err(e) => return Err(Fail::new(format!("C09:spurious-error:{}", ty.name()), format!("try_from_rng failed on a source that never fails: {}", e))),
                    }
                }
            };
            if consumed_core != consumed_rng {
                return Err(Fail::new(format!("C09:core-route-consumed:{}", stringify!($Core)), "the core and its wrapper consume a different number of source bytes through the same seeding route").exp_act(consumed_rng, consumed_core));
            }
            let mut res = <$Core as BlockRngCore>::Results::default();
            for block in 0..2 {
                core.generate(&mut res);
                for (i, w) in res.as_ref().iter().enumerate() {
                    let got: u64 = $conv(*w);
                    let want = rng.next_native();
                    if got != want {
                        return Err(Fail::new(format!("C09:core-route:{}:{}", stringify!($Core), ["seed_from_u64", "from_seed", "from_rng", "try_from_rng"][(c.route % 4) as usize]), format!("the core seeded through this route generates other words than its wrapper seeded through the same route (block {}, word {})", block, i)).exp_act(format!("{:#x}", want), format!("{:#x}", got)));
                    }
                }
            }
            Ok(CaseInfo::new(true).class(stringify!($Core)).class(["seed_from_u64", "from_seed", "from_rng", "try_from_rng"][(c.route % 4) as usize]))
        }};
    }
    match c.which % 3 {
        0 => go!(rand_hc::Hc128Core, Ty::Hc128, |w: u32| w as u64),
        1 => go!(rand_isaac::isaac::IsaacCore, Ty::Isaac, |w: u32| w as u64),
        _ => go!(rand_isaac::isaac64::Isaac64Core, Ty::Isaac64, |w: u64| w),
    }
}

pub fn def(ctx: &Ctx) -> PropDef {
    let t = ctx.tier;
    let mut subs: Vec<Box<dyn SubCheck>> = Vec::new();
    for ty in Ty::ALL {
        let info = ty.info();
        subs.push(PSub::boxed(
            format!("u64/{}", ty.name()),
            t.pick(4000, 400_000),
            move || (gens::interesting_u64(), prop_oneof![Just(300usize), 1usize..=40, Just(700usize)]).prop_map(move |(x, words)| U64Case { ty, x, words }).boxed(),
            check_u64,
        ));
        let (block, full) = match info.engine {
            Engine::Isaac => (1024, 1024),
            Engine::Isaac64 => (2048, 2048),
            _ => (info.seed_len, info.seed_len),
        };
        let zb = if info.linear { 2 } else { 0 };
        subs.push(PSub::boxed(
            format!("source/{}", ty.name()),
            t.pick(4000, 300_000),
            move || {
                let fail = prop_oneof![
                    5 => Just(None),
                    3 => (0usize..=full + 8).prop_map(Some),
                    2 => (0usize..=3 * full).prop_map(Some),
                    1 => Just(Some(full)),
                    1 => Just(Some(full.saturating_sub(1))),
                ];
                (gens::src_spec(block.min(64).max(info.seed_len), zb), fail, any::<u64>(), prop_oneof![Just(300usize), 1usize..=40])
                    .prop_map(move |(mut spec, fail_at, token, words)| {
                        // a third of the non-failing sources hand out whole 16-byte blocks per call
                        // (the rest of a block is discarded, as the block generators discard the rest
                        // of a word): one request of a seed's worth reads the same bytes as from the
                        // plain source, the same amount requested in smaller pieces does not
                        if fail_at.is_none() && ty.info().seed_len % 16 == 0 && token % 3 == 0 {
                            spec.call_block = 16;
                        }
                        SrcCase { ty, spec, fail_at, token, words }
                    })
                    .boxed()
            },
            check_src,
        ));
    }
    subs.push(PSub::boxed(
        "core-routes",
        t.pick(6000, 600_000),
        || (0u8..3, 0u8..4, gens::interesting_u64(), gens::src_spec(32, 2)).prop_map(|(which, route, x, spec)| CoreRouteCase { which, route, x, spec }).boxed(),
        check_core_route,
    ));
    for ty in Ty::ALL {
        subs.push(PSub::boxed(
            format!("real-source/{}", ty.name()),
            t.pick(2000, 150_000),
            move || {
                (proptest::sample::select(Ty::ALL.to_vec()).prop_flat_map(|m| gens::det_spec(m, true)), 0usize..=40, any::<bool>())
                    .prop_map(move |(master, master_pre, try_route)| RealSrcCase { child: ty, master, master_pre, try_route })
                    .boxed()
            },
            check_real_src,
        ));
    }
    PropDef {
        id: "C09",
        rule: "cases = 19 generator types x (a) u64 argument (0, 1, MAX, -PHI, 2^k, 2^k-1, 32-bit, uniform) with the stream (<=700 native words) and == compared against from_seed of the independently computed documented expansion (SplitMix64 stream / PCG32 / ISAAC key layout with one pass; SplitMix64 itself: x is the state); (b) byte-scripted source streams (random, dense, single-bit, leading zero blocks for the linear types; in 30% of the cases the source\u{2019}s next_u32/next_u64 deliver an unrelated stream of their own, since the contract names fill_bytes) through from_rng and try_from_rng: generator == model built from exactly the bytes handed out (ISAAC: all 256 words, two passes), byte counter exact, next unread byte follows; (b') every generator type of the five crates as the source, at generated positions: the child equals the model built from the bytes ONE fill_bytes(seed length) of a clone of the master delivers, and the master is left where that one call leaves it; (c) fallible sources failing at byte j for j across and beyond the amount read: Err carrying exactly the source's error value iff j < amount needed (XorShiftRng: also during a redraw). Non-trivial = u64 != 0, or source content not constant, or failure position > 0; distinct by hash of the case.".into(),
        explanation: None,
        assumptions: vec![
            "the documented expansions are modelled independently: refmodel::vigna::splitmix_bytes, refmodel::misc::pcg32_expand (rand_core's documented default), refmodel::isaac with 1 resp. 2 passes".into(),
            "SplitMix64::seed_from_u64(x) is documented as 'seed from a u64' (state = x); it is checked as such".into(),
        ],
        subs,
    }
}
