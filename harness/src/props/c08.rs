//! C08 — no seeding path yields the all-zero state; zero seeds are remapped as documented.

use super::PropDef;
use crate::adapter::{self, Engine, Gen, Ty};
use crate::engine::{CaseInfo, CheckResult, Ctx, Fail, PSub, SubCheck};
use crate::gens::{self, Seed};
use crate::src::{ByteSrc, FailSrc, SrcSpec};
use proptest::prelude::*;
use serde::{Deserialize, Serialize};

#[derive(Clone, Debug, Serialize, Deserialize)]
pub enum Input {
    Seed(Seed),
    U64(u64),
    FromRng(SrcSpec),
    TryFromRng(SrcSpec),
}

#[derive(Clone, Debug, Serialize, Deserialize)]
pub struct Case {
    pub ty: Ty,
    pub input: Input,
}

#[derive(Clone, Debug, Serialize, Deserialize)]
pub struct PairCase {
    pub ty: Ty,
    pub a: Seed,
    /// bit positions flipped to obtain the second seed (non-empty)
    pub flips: Vec<usize>,
}

/// the zero-state generator through Deserialize; `None` where Deserialize refuses that state
fn zero_gen(ty: Ty) -> Option<Box<dyn Gen>> {
    adapter::from_state_bytes(ty, &vec![0u8; ty.info().seed_len])
}

fn xorshift_replacement() -> Vec<u8> {
    let mut s = Vec::new();
    for _ in 0..4 {
        s.extend_from_slice(&0x0BAD_5EEDu32.to_le_bytes());
    }
    s
}

fn not_zero(ty: Ty, g: &dyn Gen, how: &str) -> Result<(), Fail> {
    let info = ty.info();
    let in_zero_state = match zero_gen(ty) {
        Some(z) => g.eq_dyn(&*z) != Some(false),
        // not constructible: inspect the (validated) serde image of the generator itself
        None => adapter::observe_state(g).map(|img| img.iter().all(|&b| b == 0)).unwrap_or(false),
    };
    if in_zero_state {
        return Err(Fail::new(format!("C08:zero-state:{}:{}", info.name, how), format!("{} returned a generator equal to the all-zero-state generator", how)));
    }
    let mut c = g.clone_box();
    let n = 2 * (info.seed_len * 8 / info.word as usize);
    if (0..n).all(|_| c.next_native() == 0) {
        return Err(Fail::new(format!("C08:zero-output:{}:{}", info.name, how), format!("{}: the first {} outputs are all zero", how, n)));
    }
    Ok(())
}

pub fn check(c: &Case) -> CheckResult {
    let info = c.ty.info();
    let ty = c.ty;
    let mut classes: Vec<String> = Vec::new();
    let mut nontrivial = false;
    match &c.input {
        Input::Seed(s) => {
            let g = adapter::from_seed(ty, &s.bytes);
            not_zero(ty, &*g, "from_seed")?;
            if s.is_zero() {
                nontrivial = true;
                classes.push("zero-seed".into());
                // documented replacement
                let want = if info.engine == Engine::XorShift128 { adapter::from_seed(ty, &xorshift_replacement()) } else { adapter::seed_from_u64(ty, 0) };
                if g.eq_dyn(&*want) != Some(true) {
                    return Err(Fail::new(format!("C08:replacement:{}", info.name), "from_seed(all-zero) is not the documented replacement (xoshiro family: seed_from_u64(0); XorShiftRng: four words 0x0BAD5EED)")
                        .exp_act(adapter::observe_state(&*want).map(|b| crate::hexser::hex(&b)), adapter::observe_state(&*g).map(|b| crate::hexser::hex(&b))));
                }
            } else {
                let nz_bits: u32 = s.bytes.iter().map(|b| b.count_ones()).sum();
                if nz_bits <= 3 {
                    nontrivial = true;
                    classes.push("near-zero-seed".into());
                }
                // verbatim use: the generator is the published algorithm started from exactly the
                // seed words (independent of how the state is represented or serialized) ...
                let mut c2 = g.clone_box();
                let mut model = crate::refmodel::stream::WordModel::from_seed_raw(ty, &s.bytes);
                for k in 0..4 {
                    let (got, want) = (c2.next_native(), model.next());
                    if got != want {
                        return Err(Fail::new(format!("C08:verbatim:{}", info.name), format!("a non-zero seed is not used verbatim: output #{} is not the reference output from the state whose words are the seed words", k)).exp_act(format!("{:#x}", want), format!("{:#x}", got)));
                    }
                }
                // ... and, where the serde image is the plain state (validated), it is the seed
                if let Some(img) = adapter::observe_state(&*g) {
                    if img != s.bytes {
                        return Err(Fail::new(format!("C08:verbatim:{}", info.name), "a non-zero seed is not used verbatim as the state").exp_act(crate::hexser::hex(&s.bytes), crate::hexser::hex(&img)));
                    }
                }
            }
            classes.push(format!("seed:{}", s.class));
        }
        Input::U64(x) => {
            let g = adapter::seed_from_u64(ty, *x);
            not_zero(ty, &*g, "seed_from_u64")?;
            let star = 0u64.wrapping_sub(0x9e3779b97f4a7c15);
            if *x == 0 || *x == star {
                nontrivial = true;
                classes.push(if *x == 0 { "u64:0".into() } else { "u64:splitmix-zero-preimage".into() });
            }
            classes.push("ctor:seed_from_u64".into());
        }
        Input::FromRng(spec) | Input::TryFromRng(spec) => {
            let try_route = matches!(c.input, Input::TryFromRng(_));
            let how = if try_route { "try_from_rng" } else { "from_rng" };
            let (g, consumed) = if try_route {
                let mut src = FailSrc::new(spec.clone(), None, 7);
                match adapter::try_from_rng(ty, &mut src) {
                    Ok(g) => (g, src.pos),
                    Err(e) => return Err(Fail::new(format!("C08:spurious-error:{}", info.name), format!("try_from_rng failed on a source that never fails: {}", e))),
                }
            } else {
                let mut src = ByteSrc::new(spec.clone());
                let g = adapter::from_rng(ty, &mut src);
                (g, src.pos)
            };
            not_zero(ty, &*g, how)?;
            let bl = info.seed_len;
            let zero_blocks = (0..).take_while(|k| spec.bytes(k * bl, bl).iter().all(|&b| b == 0)).count();
            if zero_blocks > 0 {
                nontrivial = true;
                classes.push(format!("zero-blocks:{}", zero_blocks.min(3)));
            }
            // remap (xoshiro family: one block, result = seed_from_u64(0)) or redraw (XorShiftRng)
            let (want, want_consumed) = if info.engine == Engine::XorShift128 {
                (adapter::from_seed(ty, &spec.bytes(zero_blocks * bl, bl)), (zero_blocks + 1) * bl)
            } else if zero_blocks > 0 {
                (adapter::seed_from_u64(ty, 0), bl)
            } else {
                (adapter::from_seed(ty, &spec.bytes(0, bl)), bl)
            };
            if g.eq_dyn(&*want) != Some(true) {
                return Err(Fail::new(format!("C08:source-block:{}:{}", info.name, how), format!("{}: generator is not the one built from the first usable block ({} leading zero blocks)", how, zero_blocks))
                    .exp_act(adapter::observe_state(&*want).map(|b| crate::hexser::hex(&b)), adapter::observe_state(&*g).map(|b| crate::hexser::hex(&b))));
            }
            if consumed != want_consumed {
                return Err(Fail::new(format!("C08:source-consumed:{}:{}", info.name, how), format!("{}: wrong number of source bytes consumed with {} leading zero blocks", how, zero_blocks)).exp_act(want_consumed, consumed));
            }
            classes.push(format!("ctor:{}", how));
        }
    }
    let mut ci = CaseInfo::new(nontrivial);
    ci.classes = classes;
    Ok(ci)
}

pub fn check_pair(c: &PairCase) -> CheckResult {
    let info = c.ty.info();
    let mut b = c.a.bytes.clone();
    for &p in &c.flips {
        let p = p % (b.len() * 8);
        b[p / 8] ^= 1 << (p % 8);
    }
    if b == c.a.bytes || b.iter().all(|&x| x == 0) || c.a.is_zero() {
        return Ok(CaseInfo::new(false).class("degenerate-pair"));
    }
    let ga = adapter::from_seed(c.ty, &c.a.bytes);
    let gb = adapter::from_seed(c.ty, &b);
    if ga.eq_dyn(&*gb) != Some(false) {
        return Err(Fail::new(format!("C08:injective:{}", info.name), "two different non-zero seeds give equal generators").exp_act(crate::hexser::hex(&c.a.bytes), crate::hexser::hex(&b)));
    }
    Ok(CaseInfo::new(true).class(format!("flips:{}", c.flips.len().min(3))))
}

pub fn def(ctx: &Ctx) -> PropDef {
    let t = ctx.tier;
    let mut subs: Vec<Box<dyn SubCheck>> = Vec::new();
    for ty in Ty::linear() {
        let bl = ty.info().seed_len;
        subs.push(PSub::boxed(
            format!("ctor/{}", ty.name()),
            t.pick(8000, 800_000),
            move || {
                prop_oneof![
                    4 => gens::seed_for(ty, true).prop_map(Input::Seed),
                    1 => Just(Input::Seed(Seed { class: "zero".into(), bytes: vec![0u8; bl] })),
                    3 => gens::interesting_u64().prop_map(Input::U64),
                    3 => gens::src_spec(bl, 3).prop_map(Input::FromRng),
                    3 => gens::src_spec(bl, 3).prop_map(Input::TryFromRng),
                ]
                .prop_map(move |input| Case { ty, input })
                .boxed()
            },
            check,
        ));
        subs.push(PSub::boxed(
            format!("injective/{}", ty.name()),
            t.pick(4000, 400_000),
            move || (gens::seed_for(ty, false), proptest::collection::vec(0usize..bl * 8, 1..=3)).prop_map(move |(a, flips)| PairCase { ty, a, flips }).boxed(),
            check_pair,
        ));
    }
    PropDef {
        id: "C08",
        rule: "cases = (14 linear xoshiro/xoroshiro types + XorShiftRng) x constructor input: from_seed(seed incl. all-zero, 1-3 bit seeds, special words), seed_from_u64(x incl. 0, the SplitMix64 zero pre-image -PHI, 2^k), from_rng / try_from_rng over a byte-scripted source with 0-3 leading all-zero blocks; oracles: generator != zero-state generator (built through Deserialize) and first outputs not all zero; from_seed(0) == documented replacement; non-zero seed used verbatim (validated state image == seed); source zero blocks remapped (one block consumed, result == seed_from_u64(0)) or redrawn (XorShiftRng: k+1 blocks consumed, result from the first non-zero block); plus pairs of non-zero seeds differing in 1-3 bits must give != generators. Non-trivial = zero / near-zero (<=3 bits) seed, u64 in {0, -PHI}, or a source with >=1 zero block, or a near-equal pair; distinct by hash of the case.".into(),
        explanation: None,
        assumptions: vec!["the zero-state generator and state images are obtained through the crates' public serde implementations (validated by from_seed(image) == g)".into()],
        subs,
    }
}
