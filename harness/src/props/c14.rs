//! C14 — no generator operation panics or overflows, for any input, history or timer.
//!
//! The harness is built with overflow checks and debug assertions on. Every case runs under
//! `catch_unwind` (engine::guarded); a panic located in the crates (or in rand_core/core code
//! they call) is a violation whose signature is the panic message + source file; a panic located
//! in the harness itself is a harness fault (inconclusive).

use super::PropDef;
use crate::adapter::{self, Engine, Gen, Ty};
use crate::engine::{catch, panic_signature, CaseInfo, Caught, CheckResult, Ctx, Fail, PSub, SubCheck};
use crate::gens::{self, GenSpec, Op, TimerProg};
use crate::ops::apply;
use crate::props::c12::JOp;
use crate::src::{ByteSrc, FailSrc, SrcSpec};
use proptest::prelude::*;
use serde::{Deserialize, Serialize};

#[derive(Clone, Debug, Serialize, Deserialize)]
pub enum Build {
    Spec(GenSpec),
    FromRng(Ty, SrcSpec),
    TryFromRng(Ty, SrcSpec, Option<usize>),
}

#[derive(Clone, Debug, PartialEq, Eq, Serialize, Deserialize)]
pub enum XOp {
    Op(Op),
    CloneSwitch,
    /// serialize + deserialize (where available) and continue on the restored generator
    SerdeSwitch(bool),
    Debug,
    EqSelf,
}

#[derive(Clone, Debug, Serialize, Deserialize)]
pub struct DetCase {
    pub build: Build,
    pub ops: Vec<XOp>,
}

#[derive(Clone, Debug, Serialize, Deserialize)]
pub struct JitCase {
    pub prog: TimerProg,
    pub rounds0: Option<u8>,
    pub ops: Vec<JOp>,
    pub clone_at: Option<usize>,
    /// preset the pool (cfg(rngs_verif) hook) such that the first collection returns exactly
    /// this structured value (0, a zero half, all ones, a single bit)
    #[serde(default)]
    pub first_result: Option<u64>,
    /// or preset the pool itself to this value
    #[serde(default)]
    pub start_pool: Option<u64>,
    /// or preset it such that the first collection returns (start pool ^ this): 0 = a fixed point
    /// of the collection map
    #[serde(default)]
    pub first_relation: Option<u64>,
}

pub fn check_det(c: &DetCase) -> CheckResult {
    let mut hostile = false;
    let mut g: Box<dyn Gen> = match &c.build {
        Build::Spec(s) => {
            if let GenSpec::Det { ctor: crate::ops::Ctor::Seed(sd), .. } = s {
                hostile |= sd.is_zero();
            }
            s.build()
        }
        Build::FromRng(ty, spec) => {
            hostile = true;
            adapter::from_rng(*ty, &mut ByteSrc::new(spec.clone()))
        }
        Build::TryFromRng(ty, spec, fail) => {
            hostile = true;
            match adapter::try_from_rng(*ty, &mut FailSrc::new(spec.clone(), *fail, 1)) {
                Ok(g) => g,
                Err(_) => return Ok(CaseInfo::new(true).class("source-failed")),
            }
        }
    };
    let ty = g.ty();
    for op in &c.ops {
        match op {
            XOp::Op(o) => {
                if let Op::Fill(n) = o {
                    hostile |= *n == 0 || n % 8 != 0;
                }
                apply(&mut *g, o);
            }
            XOp::CloneSwitch => g = g.clone_box(),
            XOp::SerdeSwitch(json) => {
                if *json {
                    if let Some(s) = g.json() {
                        if let Ok(r) = adapter::from_json(ty, &s) {
                            g = r;
                        }
                    }
                } else if let Some(b) = g.bincode() {
                    if let Ok(r) = adapter::from_bincode(ty, &b) {
                        g = r;
                    }
                }
            }
            XOp::Debug => {
                let _ = (g.debug(), g.debug_alt());
            }
            XOp::EqSelf => {
                let c2 = g.clone_box();
                let _ = g.eq_dyn(&*c2);
            }
        }
    }
    Ok(CaseInfo::new(hostile).class(ty.name()).class(match &c.build {
        Build::Spec(s) => s.class(),
        Build::FromRng(..) => "ctor:from_rng".into(),
        Build::TryFromRng(..) => "ctor:try_from_rng".into(),
    }))
}

/// a serde image of a generator with ONE numeric field set to an extreme value (0, all ones of
/// its width) is a valid value of the type: restoring it and continuing must not panic
#[derive(Clone, Debug, Serialize, Deserialize)]
pub struct ExtremeCase {
    pub spec: GenSpec,
    pub pre: usize,
    pub field: usize,
    pub ones: bool,
    pub ops: Vec<Op>,
}

pub fn check_extreme(c: &ExtremeCase) -> CheckResult {
    let ty = c.spec.ty();
    let info = ty.info();
    let mut g = c.spec.build();
    for _ in 0..c.pre {
        g.next_native();
    }
    let js = match g.json() {
        Some(j) => j,
        None => return Ok(CaseInfo::new(false).class("no-serde")),
    };
    let mut v: serde_json::Value = serde_json::from_str(&js).unwrap();
    fn walk<'a>(v: &'a mut serde_json::Value, key: &str, out: &mut Vec<&'a mut serde_json::Value>) {
        match v {
            serde_json::Value::Number(_) if key != "index" => out.push(v),
            serde_json::Value::Array(a) => a.iter_mut().for_each(|x| walk(x, key, out)),
            serde_json::Value::Object(m) => {
                for (k, x) in m.iter_mut() {
                    let k = k.clone();
                    walk(x, &k, out);
                }
            }
            _ => {}
        }
    }
    let mut leaves = Vec::new();
    walk(&mut v, "", &mut leaves);
    if leaves.is_empty() {
        return Ok(CaseInfo::new(false).class("no-numeric-field"));
    }
    let i = c.field % leaves.len();
    let wide = info.word == 64 && !matches!(info.engine, Engine::Isaac);
    *leaves[i] = serde_json::Value::from(if c.ones { if wide { u64::MAX } else { u32::MAX as u64 } } else { 0u64 });
    let mut r = match adapter::from_json(ty, &v.to_string()) {
        Ok(r) => r,
        Err(_) => return Ok(CaseInfo::new(false).class("rejected-by-deserialize")),
    };
    for op in &c.ops {
        apply(&mut *r, op);
    }
    // and far enough for at least two block refills
    let mut buf = vec![0u8; 3 * info.block.max(1) * 8];
    r.fill(&mut buf);
    Ok(CaseInfo::new(true).class(ty.name()).class(if c.ones { "field=MAX" } else { "field=0" }))
}

/// very many seeds, construction plus a few outputs only: a checked addition inside a key set-up
/// overflows for one seed in 2^16 .. 2^20 — volume, not structure, finds it
#[derive(Clone, Debug, Serialize, Deserialize)]
pub struct ManySeedsCase {
    pub ty: Ty,
    pub start: u64,
    pub count: u32,
}

pub fn check_many_seeds(c: &ManySeedsCase) -> CheckResult {
    let len = c.ty.info().seed_len;
    let mut seed = vec![0u8; len];
    for k in 0..c.count as u64 {
        let mut z = c.start.wrapping_add(k).wrapping_mul(0x9e3779b97f4a7c15);
        for chunk in seed.chunks_mut(8) {
            z = z.wrapping_add(0x9e3779b97f4a7c15);
            let mut x = z;
            x = (x ^ (x >> 30)).wrapping_mul(0xbf58476d1ce4e5b9);
            x = (x ^ (x >> 27)).wrapping_mul(0x94d049bb133111eb);
            x ^= x >> 31;
            let n = chunk.len();
            chunk.copy_from_slice(&x.to_le_bytes()[..n]);
        }
        let r = catch(|| {
            let mut g = adapter::from_seed(c.ty, &seed);
            (g.next_u32(), g.next_u64())
        });
        if let Caught::Panic(rec) = r {
            return Err(Fail::new(panic_signature(&rec), format!("from_seed / first outputs panicked for seed {} (number {} of the batch): {}", crate::hexser::hex(&seed), k, rec)));
        }
    }
    Ok(CaseInfo::new(c.count > 0).class("many-seeds-construction"))
}

/// A constructor fed by a source that starts with very many all-zero blocks, executed in a child
/// process on a thread with a small stack: recursion instead of a loop in a redraw path overflows
/// the stack, which no `catch_unwind` can see (the process is killed by a signal).
#[derive(Clone, Debug, Serialize, Deserialize)]
pub struct DeepCase {
    pub ty: Ty,
    pub zero_blocks: usize,
    pub try_route: bool,
    pub stack_kib: usize,
}

/// child side (`vcheck --deep-ctor`, case as JSON on stdin)
pub fn deep_ctor_main() {
    let mut text = String::new();
    use std::io::Read;
    std::io::stdin().read_to_string(&mut text).expect("stdin");
    let c: DeepCase = serde_json::from_str(&text).expect("case json");
    let h = std::thread::Builder::new()
        .stack_size(c.stack_kib.max(64) * 1024)
        .spawn(move || {
            let len = c.ty.info().seed_len;
            let spec = crate::src::SrcSpec { prefix: vec![0u8; c.zero_blocks * len], salt: 5, words_differ: false, call_block: 0 };
            let mut g = if c.try_route {
                match adapter::try_from_rng(c.ty, &mut crate::src::FailSrc::new(spec, None, 7)) {
                    Ok(g) => g,
                    Err(_) => return "error".to_string(),
                }
            } else {
                adapter::from_rng(c.ty, &mut crate::src::ByteSrc::new(spec))
            };
            format!("{:#x} {:#x}", g.next_native(), g.next_native())
        })
        .expect("spawn");
    match h.join() {
        Ok(s) => println!("ok {}", s),
        Err(_) => println!("panic {}", crate::engine::take_last_panic().unwrap_or_default()),
    }
}

pub fn check_deep(c: &DeepCase) -> CheckResult {
    use std::io::Write;
    let exe = std::env::current_exe().map_err(|e| Fail::inconclusive("C14:child-process", e.to_string()))?;
    let mut child = std::process::Command::new(exe)
        .arg("--deep-ctor")
        .stdin(std::process::Stdio::piped())
        .stdout(std::process::Stdio::piped())
        .stderr(std::process::Stdio::null())
        .spawn()
        .map_err(|e| Fail::inconclusive("C14:child-process", e.to_string()))?;
    child.stdin.take().unwrap().write_all(serde_json::to_string(c).unwrap().as_bytes()).map_err(|e| Fail::inconclusive("C14:child-process", e.to_string()))?;
    let out = child.wait_with_output().map_err(|e| Fail::inconclusive("C14:child-process", e.to_string()))?;
    let text = String::from_utf8_lossy(&out.stdout).to_string();
    let route = if c.try_route { "try_from_rng" } else { "from_rng" };
    if !out.status.success() {
        return Err(Fail::new(format!("C14:process-killed:{}:{}", c.ty.name(), route), format!("{} over a source that starts with {} all-zero blocks killed the process ({:?}) on a thread with a {} KiB stack: unbounded recursion / stack overflow instead of a loop", route, c.zero_blocks, out.status, c.stack_kib)));
    }
    if let Some(rec) = text.strip_prefix("panic ") {
        return Err(Fail::new(panic_signature(rec.trim()), format!("{} over a source that starts with {} all-zero blocks panicked: {}", route, c.zero_blocks, rec.trim())));
    }
    Ok(CaseInfo::new(c.zero_blocks > 0).class(route).class(format!("zero-blocks:{}", c.zero_blocks)))
}

/// a JitterRng whose timer closure draws from another JitterRng on the same thread: no call of
/// either may panic (the values are C19's subject)
pub fn check_nested_timer(c: &crate::props::c19::NestedTimerCase) -> CheckResult {
    for nested in [false, true] {
        for (k, v) in crate::props::c19::nested_timer_trace(c, nested).iter().enumerate() {
            if let Some(sig) = v.strip_prefix("<panic: ") {
                return Err(Fail::new(format!("panic:{}", sig.trim_end_matches('>').trim_start_matches("panic:")), format!("op #{} {:?} of a JitterRng {} panicked", k, c.ops.get(k), if nested { "whose timer closure draws from another JitterRng on the same thread" } else { "over a scripted timer" })));
            }
        }
    }
    Ok(CaseInfo::new(!c.ops.is_empty()).class("nested-timer"))
}

pub fn check_jit(c: &JitCase) -> CheckResult {
    let script = c.prog.script();
    let mut g = adapter::jitter_gen(script.clone(), c.rounds0, 3_000_000);
    let mut budget_hit = false;
    let mut targeted = false;
    if let Some(want) = c.first_result {
        let rounds = c.rounds0.map(|r| r as u32).unwrap_or(64);
        if let Some(p0) = crate::refmodel::jitter::pool_for_result(&script, 0, rounds, want, 3_000_000) {
            targeted = g.jitter().unwrap().set_pool(p0);
        }
    } else if let Some(p0) = c.start_pool {
        targeted = g.jitter().unwrap().set_pool(p0);
    } else if let Some(rel) = c.first_relation {
        let rounds = c.rounds0.map(|r| r as u32).unwrap_or(64);
        if let Some(p0) = crate::refmodel::jitter::pool_for_relation(&script, 0, rounds, rel, 3_000_000) {
            targeted = g.jitter().unwrap().set_pool(p0);
        }
    }
    for (k, op) in c.ops.iter().enumerate() {
        if c.clone_at == Some(k) {
            g = g.clone_box();
        }
        let r = catch(|| match op {
            JOp::U32 => {
                g.next_u32();
            }
            JOp::U64 => {
                g.next_u64();
            }
            JOp::Fill(n) => {
                crate::ops::fill_unaligned(&mut *g, *n);
            }
            JOp::Stats(v) => {
                g.jitter().unwrap().timer_stats(*v);
            }
            JOp::Rounds(r) => g.jitter().unwrap().set_rounds((*r).max(1)), // set_rounds(0) is the documented panic: excluded by construction
            JOp::TestTimer => {
                if let Ok(r) = g.jitter().unwrap().test_timer() {
                    g.jitter().unwrap().set_rounds(r);
                }
            }
            JOp::Clone => {}
        });
        if matches!(op, JOp::Clone) {
            g = g.clone_box();
        }
        match r {
            Caught::Ok(()) => {}
            Caught::Panic(rec) => return Err(Fail::new(panic_signature(&rec), format!("JitterRng op #{} {:?} panicked: {}", k, op, rec))),
            Caught::Budget => {
                // a timer that stays stuck: the call may fail to return, but must not panic
                budget_hit = true;
                break;
            }
        }
        let _ = (g.debug(), g.debug_alt());
    }
    Ok(CaseInfo::new(c.prog.hostile() || targeted).class_if(c.prog.hostile(), "hostile-deltas").class_if(budget_hit, "stuck-budget").class_if(c.ops.contains(&JOp::TestTimer), "has-test_timer").class_if(targeted, "pool-or-first-result-preset"))
}

pub fn def(ctx: &Ctx) -> PropDef {
    let t = ctx.tier;
    let mut subs: Vec<Box<dyn SubCheck>> = Vec::new();
    for ty in Ty::ALL {
        let info = ty.info();
        let max_ops = t.pick(30, 200);
        let src_block = match info.engine {
            Engine::Isaac | Engine::Isaac64 => 64,
            _ => info.seed_len,
        };
        let need = match info.engine {
            Engine::Isaac => 1024,
            Engine::Isaac64 => 2048,
            _ => info.seed_len,
        };
        subs.push(PSub::boxed(
            format!("det/{}", ty.name()),
            t.pick(4000, 300_000),
            move || {
                let build = prop_oneof![
                    6 => gens::det_spec(ty, true).prop_map(Build::Spec),
                    2 => gens::src_spec(src_block, 2).prop_map(move |s| Build::FromRng(ty, s)),
                    2 => (gens::src_spec(src_block, 2), proptest::option::of(0usize..=need + 40)).prop_map(move |(s, f)| Build::TryFromRng(ty, s, f)),
                ];
                let big = prop_oneof![30 => Just(5000usize), 1 => Just(1usize << 20)];
                let xop = big.prop_flat_map(move |b| gens::op(&info, b, true)).prop_map(XOp::Op);
                let xop = prop_oneof![20 => xop, 1 => Just(XOp::CloneSwitch), 1 => any::<bool>().prop_map(XOp::SerdeSwitch), 1 => Just(XOp::Debug), 1 => Just(XOp::EqSelf)];
                (build, proptest::collection::vec(xop, 0..=max_ops)).prop_map(|(build, ops)| DetCase { build, ops }).boxed()
            },
            check_det,
        ));
    }
    for part in 0..12 {
        let max_ops = t.pick(12, 40);
        subs.push(PSub::boxed(
            format!("jitter/{}", part),
            t.pick(1000, 100_000),
            move || {
                let ops = proptest::collection::vec(prop_oneof![20 => crate::props::c12::jop(64), 1 => Just(JOp::TestTimer)], 0..=max_ops);
                (gens::timer_prog(true, 16), proptest::option::weighted(0.85, gens::jitter_rounds()), ops, proptest::option::weighted(0.3, 0usize..12), proptest::option::weighted(0.2, crate::props::c12::structured_value()), proptest::option::weighted(0.15, crate::props::c12::structured_value()), proptest::option::weighted(0.15, prop_oneof![4 => Just(0u64), 1 => Just(u64::MAX), 1 => (0u32..64).prop_map(|k| 1u64 << k)]))
                    .prop_map(|(prog, rounds0, mut ops, clone_at, first_result, start_pool, first_relation)| {
                        if first_result.is_some() || (start_pool.is_none() && first_relation.is_some()) {
                            // the targeted collection must be the first operation
                            ops.insert(0, JOp::U64);
                        }
                        JitCase { prog, rounds0, ops, clone_at, first_result, start_pool, first_relation }
                    })
                    .boxed()
            },
            check_jit,
        ));
    }
    for ty in Ty::with_serde() {
        let info = ty.info();
        // every numeric field once at 0 and once at all ones (enumerated)
        subs.push(crate::engine::ESub::boxed(
            format!("extreme-field-all/{}", ty.name()),
            600,
            move || {
                let g = adapter::seed_from_u64(ty, 99);
                fn count(v: &serde_json::Value, key: &str) -> usize {
                    match v {
                        serde_json::Value::Number(_) if key != "index" => 1,
                        serde_json::Value::Array(a) => a.iter().map(|x| count(x, key)).sum(),
                        serde_json::Value::Object(m) => m.iter().map(|(k, x)| count(x, k)).sum(),
                        _ => 0,
                    }
                }
                let n = g.json().map(|j| count(&serde_json::from_str(&j).unwrap(), "")).unwrap_or(0);
                let mut v = Vec::new();
                for field in 0..n {
                    for ones in [false, true] {
                        v.push(ExtremeCase { spec: GenSpec::Det { ty, ctor: crate::ops::Ctor::U64(field as u64 + 1) }, pre: if field % 2 == 0 { 0 } else { 5 }, field, ones, ops: vec![Op::U32, Op::U64, Op::Fill(13)] });
                    }
                }
                v
            },
            check_extreme,
        ));
        subs.push(PSub::boxed(
            format!("extreme-field/{}", ty.name()),
            t.pick(if info.block > 0 { 1500 } else { 300 }, 100_000),
            move || (gens::det_spec(ty, true), gens::pre_advance(&info), 0usize..4096, any::<bool>(), gens::ops(&info, 6, 600, true)).prop_map(|(spec, pre, field, ones, ops)| ExtremeCase { spec, pre, field, ones, ops }).boxed(),
            check_extreme,
        ));
    }
    // long runs past counter-width boundaries (2^16 blocks of the buffered generators; 2^20 words
    // of everything else), mixing the three call kinds
    for ty in Ty::ALL {
        let words: usize = match ty.info().engine {
            Engine::Isaac | Engine::Isaac64 => 66_000 * 256,
            _ => 1_200_000,
        };
        subs.push(PSub::boxed(
            format!("long/{}", ty.name()),
            t.pick(2, 6),
            move || gens::det_spec(ty, true).prop_map(move |spec| DetCase { build: Build::Spec(spec), ops: vec![XOp::Op(Op::Fill(words * 4)), XOp::Op(Op::U32), XOp::Op(Op::U64), XOp::Op(Op::Fill(70_001)), XOp::Op(Op::U64)] }).boxed(),
            check_det,
        ));
    }
    // thorough only: HC-128 past 2^32 words (u32 counters), ~17 GiB of keystream, no model needed
    if t == crate::engine::Tier::Thorough {
        subs.push(PSub::boxed(
            "long/Hc128Rng-past-2^32-words",
            1,
            || gens::det_spec(Ty::Hc128, false).prop_map(|spec| DetCase { build: Build::Spec(spec), ops: vec![XOp::Op(Op::U32)] }).boxed(),
            |c: &DetCase| {
                let mut g = match &c.build {
                    Build::Spec(s) => s.build(),
                    _ => unreachable!(),
                };
                let mut buf = vec![0u8; 1 << 20];
                for _ in 0..(16 * 1024 + 64) {
                    g.fill(&mut buf);
                }
                g.next_u64();
                Ok(CaseInfo::new(true).class("2^32+ words"))
            },
        ));
    }
    // a stuck timer for a very long time that then recovers: retry counters of any width up to
    // 2^16 wrap (70 000 consecutive stuck measurements = 210 000 equal readings)
    // 2^18 (thorough 2^24) dense seeds per type: construction and the first outputs
    for ty in Ty::ALL {
        subs.push(PSub::boxed(
            format!("many-seeds/{}", ty.name()),
            t.pick(64, 4096),
            move || any::<u64>().prop_map(move |start| ManySeedsCase { ty, start, count: 4096 }).boxed(),
            check_many_seeds,
        ));
    }
    subs.push(PSub::boxed(
        "jitter/nested-timer",
        t.pick(300, 30_000),
        || {
            let ops = proptest::collection::vec(prop_oneof![8 => crate::props::c12::jop(12), 1 => Just(JOp::TestTimer)], 1..=4);
            (gens::timer_prog(false, 6), gens::timer_prog(false, 4), 1u8..=3, ops, prop_oneof![3 => Just(1usize), 2 => 2usize..=7]).prop_map(|(outer, inner, rounds, ops, every)| crate::props::c19::NestedTimerCase { outer, inner, rounds, ops, every }).boxed()
        },
        check_nested_timer,
    ));
    // every type x both source routes x two depths, each in a child process on a 512 KiB stack
    subs.push(crate::engine::ESub::boxed(
        "deep-zero-source",
        80,
        || {
            let mut v = Vec::new();
            for ty in Ty::ALL {
                for try_route in [false, true] {
                    for zero_blocks in [20_000usize, 200_000] {
                        // the block generators read one large key: a few blocks are already "deep"
                        let zb = if ty.info().seed_len > 64 { zero_blocks / 1000 } else { zero_blocks };
                        v.push(DeepCase { ty, zero_blocks: zb, try_route, stack_kib: 512 });
                    }
                }
            }
            v
        },
        check_deep,
    ));
    // every stuck length x both kinds, enumerated: a timer that stands still (or ticks perfectly
    // evenly) for 900 / 2 400 / 15 000 / 210 000 readings inside one collection and then recovers
    subs.push(crate::engine::ESub::boxed(
        "jitter/long-stuck",
        8,
        move || {
            let mut v = Vec::new();
            for (k, stuck) in [300usize, 800, 5_000, 70_000].into_iter().enumerate() {
                for zero in [false, true] {
                    v.push(JitCase {
                        prog: TimerProg { start: 1_000 + k as u64, segs: vec![gens::Seg::Jitter { n: 9, lo: 50, spread: 40 }, if zero { gens::Seg::Zero { n: 3 * stuck } } else { gens::Seg::Equal { n: 3 * stuck, d: 7 } }], salt: 11 + k as u64 },
                        rounds0: Some(1 + (k % 3) as u8),
                        ops: vec![JOp::U64, JOp::U32, JOp::U64],
                        clone_at: None,
                        first_result: None,
                        start_pool: None,
                        first_relation: None,
                    });
                }
            }
            v
        },
        check_jit,
    ));
    // JitterRng::new() over the real platform clock: whatever the clock does on this machine,
    // the constructor (test_timer + set_rounds + one collection) returns Ok or Err, never panics
    subs.push(crate::engine::ESub::boxed("jitter/new-real-clock", 5, || vec![0u8, 1, 2], |_k: &u8| {
        match catch(|| rand_jitter::JitterRng::new().map(|mut g| { use rand_core::RngCore; g.next_u32() })) {
            Caught::Ok(r) => Ok(CaseInfo::new(true).class(if r.is_ok() { "new:Ok" } else { "new:Err" })),
            Caught::Panic(rec) => Err(Fail::new(panic_signature(&rec), format!("JitterRng::new() panicked: {}", rec))),
            Caught::Budget => Ok(CaseInfo::new(false)),
        }
    }));
    // timer_stats on boundary pairs of readings (every power of two, +-1, negated, wrap-around)
    subs.push(PSub::boxed("jitter/timer_stats-pairs", t.pick(20_000, 2_000_000), crate::props::c12::stats_strategy, |c: &crate::props::c12::StatsCase| {
        crate::props::c12::check_stats(c).map(|i| CaseInfo::new(true).class(i.classes.first().cloned().unwrap_or_default()))
    }));
    // test_timer on the constructive timers of C13, including timers whose deltas sit at +-2^31
    subs.push(PSub::boxed(
        "jitter/test_timer-hostile",
        t.pick(3000, 300_000),
        || {
            (crate::props::c13::strategy(), proptest::collection::vec((100usize..400, gens::hostile_delta()), 0..=6))
                .prop_map(|(mut case, inj)| {
                    // hostile deltas are expressed as an explicit cycle for the counted pattern
                    if !inj.is_empty() {
                        let mut cyc: Vec<u64> = (0..300).map(|i| 50 + (i as u64 * 7) % 13).collect();
                        for (p, d) in inj {
                            cyc[p - 100] = d.max(1);
                        }
                        case.counted = crate::props::c13::Pattern::Cycle(cyc);
                    }
                    case
                })
                .boxed()
        },
        |c: &crate::props::c13::Case| {
            let script = crate::props::c13::build_script(c);
            let mut g = adapter::jitter_gen(script, None, 3_000_000);
            match catch(|| {
                if let Ok(r) = g.jitter().unwrap().test_timer() {
                    g.jitter().unwrap().set_rounds(r);
                    g.next_u64();
                }
            }) {
                Caught::Ok(()) | Caught::Budget => Ok(CaseInfo::new(true).class("test_timer")),
                Caught::Panic(rec) => Err(Fail::new(panic_signature(&rec), format!("test_timer / set_rounds(test_timer()?) panicked: {}", rec))),
            }
        },
    ));
    if ctx.tier == crate::engine::Tier::Thorough {
        subs.push(crate::props::fuzzsub::FuzzSub::boxed("fz_hist", "C14", 400000, false));
        subs.push(crate::props::fuzzsub::FuzzSub::boxed("fz_hist", "C14", 400000, true));
    }
    if ctx.tier == crate::engine::Tier::Thorough {
        subs.push(crate::props::fuzzsub::FuzzSub::boxed("fz_jitter", "C14", 150000, false));
        subs.push(crate::props::fuzzsub::FuzzSub::boxed("fz_jitter", "C14", 150000, true));
    }
    if ctx.tier == crate::engine::Tier::Thorough {
        subs.push(crate::props::fuzzsub::FuzzSub::boxed("fz_timer", "C14", 100000, false));
        subs.push(crate::props::fuzzsub::FuzzSub::boxed("fz_timer", "C14", 100000, true));
    }
    PropDef {
        id: "C14",
        rule: "overflow-checked build (overflow-checks and debug-assertions on); every case under catch_unwind with a recording panic hook. Deterministic types: constructor (from_seed incl. zero seeds, seed_from_u64 of any u64, from_rng / try_from_rng over byte-scripted sources incl. zero blocks and failures at any byte) x histories up to 30 (thorough 200) ops of next_u32/next_u64/fill_bytes(n incl. 0, tails, block edges, rarely 1 MiB)/jump/long_jump/clone/serde round trip/Debug/==. JitterRng: hostile timer programs (deltas within +-3 of +-2^31 and 2^32, 2^32 multiples, backwards, arbitrary u64, zero, wrap-around starts), rounds 1..=255, histories incl. timer_stats, set_rounds (0 excluded by construction: the documented panic), test_timer followed by set_rounds(r), clones; plus test_timer over the constructive C13 timers with hostile deltas injected. Any panic located outside the harness sources is a violation keyed on (message, file). Non-trivial = case contains a hostile element (zero/odd length, zero seed, source-based constructor, hostile delta); distinct by hash of the case.".into(),
        explanation: None,
        assumptions: vec!["a read-budget unwind of the scripted timer (a stuck timer: the call may fail to return) is not a crate panic and is classified separately".into()],
        subs,
    }
}
