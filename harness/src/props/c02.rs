//! C02 — Hc128Rng keystream equals HC-128 (Wu) for every key and IV.

use super::PropDef;
use crate::adapter::{self, Ty};
use crate::engine::{CaseInfo, CheckResult, Ctx, Fail, PSub, SubCheck};
use crate::gens::{self, Seed};
use crate::refmodel::hc128::Hc128;
use proptest::prelude::*;
use rand_core::block::BlockRngCore;
use rand_core::SeedableRng;
use serde::{Deserialize, Serialize};

#[derive(Clone, Debug, Serialize, Deserialize)]
pub struct Case {
    pub seed: Seed,
    pub depth: usize,
    /// true: through Hc128Core::generate (16-word blocks); false: Hc128Rng::next_u32
    pub core_route: bool,
}

/// very many seeds, shallow (see C03): one case = a batch of counter-derived seeds, 20 words each
#[derive(Clone, Debug, Serialize, Deserialize)]
pub struct ManyCase {
    pub start: u64,
    pub count: u32,
}

pub fn check_many(c: &ManyCase) -> CheckResult {
    let mut seed = [0u8; 32];
    for k in 0..c.count as u64 {
        let mut z = c.start.wrapping_add(k).wrapping_mul(0x9e3779b97f4a7c15);
        for w in 0..4 {
            z = z.wrapping_add(0x9e3779b97f4a7c15);
            let mut x = z;
            x = (x ^ (x >> 30)).wrapping_mul(0xbf58476d1ce4e5b9);
            x = (x ^ (x >> 27)).wrapping_mul(0x94d049bb133111eb);
            x ^= x >> 31;
            seed[8 * w..8 * w + 8].copy_from_slice(&x.to_le_bytes());
        }
        let mut g = adapter::from_seed(Ty::Hc128, &seed);
        let mut m = Hc128::from_seed(&seed);
        for pos in 0..20 {
            let (got, want) = (g.next_u32(), m.next());
            if got != want {
                return Err(Fail::new("C02:keystream:rng", format!("seed {} (number {} of the batch): stream position {} differs from HC-128", crate::hexser::hex(&seed), k, pos)).exp_act(format!("{:#010x}", want), format!("{:#010x}", got)));
            }
        }
    }
    Ok(CaseInfo::new(c.count > 0).class("many-seeds-shallow"))
}

pub fn check(c: &Case) -> CheckResult {
    let mut m = Hc128::from_seed(&c.seed.bytes);
    let route = if c.core_route { "core" } else { "rng" };
    if c.core_route {
        let mut seed = [0u8; 32];
        seed.copy_from_slice(&c.seed.bytes);
        let mut core = rand_hc::Hc128Core::from_seed(seed);
        let mut pos = 0;
        while pos < c.depth {
            // `results` is an out-parameter: its previous content must not matter
            let mut block = [(pos as u32).wrapping_mul(0x9e3779b9) | 1; 16];
            core.generate(&mut block);
            for (i, got) in block.iter().enumerate() {
                let want = m.next();
                if *got != want {
                    return Err(Fail::new(format!("C02:keystream:{}", route), format!("block word {} (stream position {}) differs from HC-128", i, pos + i))
                        .exp_act(format!("{:#010x}", want), format!("{:#010x}", got)));
                }
            }
            pos += 16;
        }
    } else {
        let mut g = adapter::from_seed(Ty::Hc128, &c.seed.bytes);
        for pos in 0..c.depth {
            let got = g.next_u32();
            let want = m.next();
            if got != want {
                return Err(Fail::new(format!("C02:keystream:{}", route), format!("stream position {} differs from HC-128", pos))
                    .exp_act(format!("{:#010x}", want), format!("{:#010x}", got)));
            }
        }
    }
    let nz = c.seed.bytes.iter().filter(|&&b| b != 0).count();
    Ok(CaseInfo::new(nz >= 2 && c.depth > 16 && !gens::is_anchor(Ty::Hc128, &c.seed.bytes))
        .class(format!("seed:{}", c.seed.class))
        .class(format!("route:{}", route))
        .class_if(c.depth > 512, "crossed-P-to-Q")
        .class_if(c.depth > 1024, "crossed-table-wrap")
        .class_if(c.depth > 2048, "two-table-wraps"))
}

/// HC-128 specific seed classes on top of the shared ones: key-only, IV-only, distinct small
/// words (any word permutation or wrong second copy in the expansion changes the stream)
pub fn hc_seed() -> BoxedStrategy<Seed> {
    let distinct = (any::<u32>(), 1u32..=255, any::<bool>(), any::<bool>()).prop_map(|(base, step, key, iv)| {
        let mut b = Vec::new();
        for i in 0..8u32 {
            let on = if i < 4 { key } else { iv } || (!key && !iv);
            let w = if on { base.wrapping_add(step.wrapping_mul(i + 1)) } else { 0 };
            b.extend_from_slice(&w.to_le_bytes());
        }
        Seed { class: "distinct-words".into(), bytes: b }
    });
    prop_oneof![3 => gens::seed_for(Ty::Hc128, true), 1 => distinct].boxed()
}

pub fn def(ctx: &Ctx) -> PropDef {
    let t = ctx.tier;
    let depth = prop_oneof![2 => Just(16usize), 2 => Just(64usize), 3 => Just(560usize), 3 => Just(1100usize), 2 => Just(2300usize), 2 => 1usize..2400];
    let d2 = depth.clone();
    let mut subs: Vec<Box<dyn SubCheck>> = vec![
        PSub::boxed("stream/rng", t.pick(6000, 600_000), move || {
            (hc_seed(), depth.clone()).prop_map(|(seed, depth)| Case { seed, depth, core_route: false }).boxed()
        }, check),
        PSub::boxed("stream/core", t.pick(6000, 600_000), move || {
            (hc_seed(), d2.clone()).prop_map(|(seed, depth)| Case { seed, depth, core_route: true }).boxed()
        }, check),
    ];
    // systematic: exactly one non-zero byte at each of the 32 positions
    subs.push(PSub::boxed("onebyte/rng", t.pick(512, 32 * 255), || {
        (0usize..32, 1u8..=255, prop_oneof![Just(48usize), Just(1100usize)])
            .prop_map(|(i, v, depth)| {
                let mut b = vec![0u8; 32];
                b[i] = v;
                Case { seed: Seed { class: "onebyte".into(), bytes: b }, depth, core_route: false }
            })
            .boxed()
    }, check));
    // beyond 2^16 blocks = 2^20 words (counter-width boundaries)
    let long = t.pick(1_200_000usize, 20_000_000);
    // 2^17 (thorough 2^23) seeds, twenty words each (HC-128's key set-up is 1 280 + 1 024 steps)
    subs.push(PSub::boxed("many-seeds", t.pick(64, 4096), || any::<u64>().prop_map(|start| ManyCase { start, count: 2048 }).boxed(), check_many));
    subs.push(PSub::boxed("long/rng", t.pick(6, 24), move || hc_seed().prop_map(move |seed| Case { seed, depth: long, core_route: false }).boxed(), check));
    subs.push(PSub::boxed("long/core", t.pick(6, 24), move || hc_seed().prop_map(move |seed| Case { seed, depth: long, core_route: true }).boxed(), check));
    PropDef {
        id: "C02",
        rule: "cases = 32-byte seed (uniform, sparse, dense, special words, single non-zero byte at every position, key-only / IV-only / distinct key and IV words, zero, crate test seeds) x depth {16; 64; 560 (P->Q); 1100 (table wrap); 2300; random; long runs} x route {Hc128Rng::next_u32, Hc128Core::generate}; every keystream word is compared with the array-form HC-128 of Wu's specification. Non-trivial = >=2 non-zero seed bytes, depth > 16, not a crate test seed; distinct by hash of (seed, depth, route). many-seeds: 64 (thorough 4096) batches of 2048 counter-derived seeds, first twenty words each against the specification (2^17, thorough 2^23 key set-ups; one batch counts as one evaluation).".into(),
        explanation: None,
        assumptions: vec!["refmodel::hc128 implements Wu's specification (validated at start-up on the three vectors of the paper and on vectors of the independent Python model, incl. 2200-word streams)".into()],
        subs,
    }
}
