//! C04 — XorShiftRng equals Marsaglia's xor128 generator for every seed.

use super::PropDef;
use crate::adapter::{self, Ty};
use crate::engine::{CaseInfo, CheckResult, Ctx, Fail, PSub};
use crate::gens::{self, Seed};
use crate::refmodel::misc::Xor128;
use proptest::prelude::*;
use serde::{Deserialize, Serialize};

#[derive(Clone, Debug, Serialize, Deserialize)]
pub struct Case {
    pub seed: Seed,
    pub steps: usize,
}

pub fn check(c: &Case) -> CheckResult {
    let mut g = adapter::from_seed(Ty::XorShift, &c.seed.bytes);
    let mut m = Xor128::from_seed(&c.seed.bytes);
    for k in 0..c.steps {
        let got = g.next_u32();
        let want = m.next();
        if got != want {
            return Err(Fail::new("C04:output", format!("next_u32 #{} differs from xor128", k)).exp_act(format!("{:#010x}", want), format!("{:#010x}", got)));
        }
    }
    let sb = m.state_bytes();
    if sb.iter().all(|&b| b == 0) {
        return Err(Fail::inconclusive("C04:model-zero", "xor128 reached zero from a non-zero state (C07's subject)"));
    }
    let expect = adapter::from_seed(Ty::XorShift, &sb);
    if g.eq_dyn(&*expect) != Some(true) {
        return Err(Fail::new("C04:state", format!("state after {} steps is not (x,y,z,w) of xor128", c.steps)).exp_act(format!("{:x?}", m), adapter::observe_state(&*g).map(|b| crate::hexser::hex(&b))));
    }
    let big = c.seed.bytes.chunks(4).any(|w| u32::from_le_bytes([w[0], w[1], w[2], w[3]]) >= 1 << 16);
    Ok(CaseInfo::new(big && !gens::is_anchor(Ty::XorShift, &c.seed.bytes) && c.steps > 0).class(format!("seed:{}", c.seed.class)))
}

/// stream positions reached through the other output calls: next_u64 is two steps (low word
/// first), fill_bytes(n) is ceil(n/4) steps in little-endian bytes; every next_u32 in between and
/// the state after every call must be xor128's
#[derive(Clone, Debug, Serialize, Deserialize)]
pub struct MixedCase {
    pub seed: Seed,
    pub ops: Vec<crate::ops::Op>,
}

pub fn check_mixed(c: &MixedCase) -> CheckResult {
    use crate::ops::Op;
    let mut g = adapter::from_seed(Ty::XorShift, &c.seed.bytes);
    let mut m = Xor128::from_seed(&c.seed.bytes);
    let mut u32_after_other = false;
    let mut last_other = false;
    for (k, op) in c.ops.iter().enumerate() {
        match op {
            Op::U32 => {
                let (got, want) = (g.next_u32(), m.next());
                if got != want {
                    return Err(Fail::new("C04:output", format!("next_u32 (op #{}, after {:?}) is not the new w of the xor128 step at this stream position", k, c.ops.get(k.wrapping_sub(1)))).exp_act(format!("{:#010x}", want), format!("{:#010x}", got)));
                }
                u32_after_other |= last_other;
                last_other = false;
            }
            Op::U64 => {
                let got = g.next_u64();
                let lo = m.next() as u64;
                let want = (m.next() as u64) << 32 | lo;
                if got != want {
                    return Err(Fail::new("C04:output-u64", format!("next_u64 (op #{}) is not two xor128 steps, low word first", k)).exp_act(format!("{:#018x}", want), format!("{:#018x}", got)));
                }
                last_other = true;
            }
            Op::Fill(n) => {
                let got = crate::ops::fill_unaligned(&mut *g, *n);
                let mut want = Vec::new();
                for _ in 0..(*n + 3) / 4 {
                    want.extend_from_slice(&m.next().to_le_bytes());
                }
                want.truncate(*n);
                if got != want {
                    return Err(Fail::new("C04:output-fill", format!("fill_bytes({}) (op #{}) is not the little-endian bytes of the next xor128 steps", n, k)).exp_act(crate::hexser::hex(&want), crate::hexser::hex(&got)));
                }
                last_other = true;
            }
            _ => {}
        }
        let sb = m.state_bytes();
        let expect = adapter::from_seed(Ty::XorShift, &sb);
        if g.eq_dyn(&*expect) != Some(true) {
            return Err(Fail::new("C04:state", format!("state after op #{} {:?} is not (x,y,z,w) of xor128 at this stream position", k, op)).exp_act(format!("{:x?}", m), adapter::observe_state(&*g).map(|b| crate::hexser::hex(&b))));
        }
    }
    Ok(CaseInfo::new(u32_after_other).class(format!("seed:{}", c.seed.class)).class_if(c.ops.iter().any(|o| matches!(o, Op::Fill(n) if n % 4 != 0)), "fill-with-partial-word"))
}

fn model_inverse() -> std::sync::Arc<crate::gf2::Matrix> {
    use crate::gf2::{Bits, Matrix};
    use std::sync::{Arc, OnceLock};
    static CACHE: OnceLock<Arc<Matrix>> = OnceLock::new();
    CACHE
        .get_or_init(|| {
            let cols = (0..128)
                .map(|i| {
                    let mut m = Xor128::from_seed(&Bits::unit(i).to_bytes(16));
                    m.next();
                    Bits::from_bytes(&m.state_bytes())
                })
                .collect();
            Arc::new(Matrix { n: 128, cols }.inverse().expect("xor128 is invertible"))
        })
        .clone()
}

pub fn def(ctx: &Ctx) -> PropDef {
    let t = ctx.tier;
    let steps = prop_oneof![3 => Just(1usize), 4 => 2usize..=16, 3 => 17usize..=300, 1 => 301usize..=5000];
    let long = t.pick(50_000usize, 5_000_000);
    PropDef {
        id: "C04",
        rule: "cases = non-zero 16-byte seed (uniform, sparse, dense, special words, single byte, crate test seeds) x step count {1; 2-16; 17-300; <=5000; long runs}; every next_u32 and the successor state (== from_seed(le_bytes(x,y,z,w))) are compared with Marsaglia's xor128; mixed-calls: histories of next_u32 / next_u64 / fill_bytes(n) — the stream positions a caller can reach — with every value (next_u64 = two steps, low word first; fill = ceil(n/4) steps, little-endian) and the state after every call compared with xor128. Non-trivial = not a crate test seed, some word >= 2^16, >=1 step; distinct by hash of (seed, steps).".into(),
        explanation: None,
        assumptions: vec!["refmodel::misc::Xor128 is the xor128 step of the paper (validated against the crate's published vector and the Python model)".into()],
        subs: vec![
            PSub::boxed("stream", t.pick(40_000, 6_000_000), move || (gens::seed_for(Ty::XorShift, false), steps.clone()).prop_map(|(seed, steps)| Case { seed, steps }).boxed(), check),
            PSub::boxed("preimage", t.pick(20_000, 2_000_000), || {
                (gens::target_state(Ty::XorShift), 1usize..=8)
                    .prop_map(|(target, back)| {
                        let mut s = crate::gf2::Bits::from_bytes(&target.bytes);
                        let ti = model_inverse();
                        for _ in 0..back {
                            s = ti.apply(&s);
                        }
                        Case { seed: Seed { class: format!("pre:{}", target.class), bytes: s.to_bytes(16) }, steps: back + 3 }
                    })
                    .boxed()
            }, check),
            PSub::boxed("mixed-calls", t.pick(20_000, 2_000_000), || (gens::seed_for(Ty::XorShift, false), gens::ops(&Ty::XorShift.info(), 12, 40, false)).prop_map(|(seed, ops)| MixedCase { seed, ops }).boxed(), check_mixed),
            PSub::boxed("long", t.pick(30, 100), move || gens::seed_for(Ty::XorShift, false).prop_map(move |seed| Case { seed, steps: long }).boxed(), check),
        ],
    }
}
