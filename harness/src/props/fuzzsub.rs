//! Thorough-tier sub-check: a bounded libFuzzer campaign (cargo-fuzz, nightly, ASan) on one of
//! the byte-level targets with one property's oracle armed (VERIF_PROP). A crash artifact is
//! decoded back into the structured case, shrunk by the harness's own greedy shrinker keyed on
//! the failure signature, and reported in the same replay format as the proptest sub-checks.

use crate::engine::{CaseInfo, CheckResult, Ctx, Fail, SubCheck, SubResult, Violation};
use crate::fuzzdec;
use serde_json::{json, Value};
use std::path::PathBuf;
use std::process::Command;

pub struct FuzzSub {
    pub target: &'static str,
    pub prop: &'static str,
    pub runs: u64,
    pub seeded_corpus: bool,
}

impl FuzzSub {
    pub fn boxed(target: &'static str, prop: &'static str, runs: u64, seeded_corpus: bool) -> Box<dyn SubCheck> {
        Box::new(FuzzSub { target, prop, runs, seeded_corpus })
    }
    fn fuzz_dir(ctx: &Ctx) -> PathBuf {
        ctx.verif_dir.join("harness").join("fuzz")
    }
}

fn xs(z: &mut u64) -> u64 {
    *z ^= *z << 13;
    *z ^= *z >> 7;
    *z ^= *z << 17;
    *z
}

impl SubCheck for FuzzSub {
    fn name(&self) -> String {
        format!("fuzz/{}/{}", self.target, if self.seeded_corpus { "seeded-corpus" } else { "empty-corpus" })
    }
    fn weight(&self) -> u64 {
        u64::MAX / 2
    }

    fn run(&self, ctx: &Ctx, property: &str) -> SubResult {
        let t0 = std::time::Instant::now();
        let mut res = SubResult::new(&self.name());
        let fdir = Self::fuzz_dir(ctx);
        let work = ctx.verif_dir.join("out").join("fuzz").join(format!("{}-{}-{}-{}", self.prop, self.target, if self.seeded_corpus { "seeded" } else { "empty" }, ctx.seed));
        let _ = std::fs::remove_dir_all(&work);
        let corpus = work.join("corpus");
        let arts = work.join("artifacts");
        if std::fs::create_dir_all(&corpus).is_err() || std::fs::create_dir_all(&arts).is_err() {
            res.inconclusive = Some("cannot create fuzz work directory".into());
            return res;
        }
        if self.seeded_corpus {
            // random files of assorted lengths: every byte string decodes to a valid case
            let mut z = crate::engine::mix_seed(ctx.seed, &self.name()) | 1;
            for i in 0..200 {
                let len = [16usize, 40, 100, 300, 1200, 4000][i % 6] + (xs(&mut z) % 32) as usize;
                let bytes: Vec<u8> = (0..len).map(|_| (xs(&mut z) >> 24) as u8).collect();
                let _ = std::fs::write(corpus.join(format!("seed-{:03}", i)), bytes);
            }
        }
        // build (shared across the campaigns; cargo serialises concurrent builds)
        let b = Command::new("cargo").current_dir(&fdir).args(["+nightly", "fuzz", "build", self.target]).env("CARGO_NET_OFFLINE", "true").output();
        match b {
            Ok(o) if o.status.success() => {}
            Ok(o) => {
                res.inconclusive = Some(format!("cargo fuzz build failed: {}", String::from_utf8_lossy(&o.stderr).lines().filter(|l| l.starts_with("error")).take(4).collect::<Vec<_>>().join(" | ")));
                return res;
            }
            Err(e) => {
                res.inconclusive = Some(format!("cannot run cargo fuzz: {}", e));
                return res;
            }
        }
        let seed = if ctx.seed == 0 { 1_000_003 } else { ctx.seed & 0x7fff_ffff };
        let out = Command::new("cargo")
            .current_dir(&fdir)
            .args(["+nightly", "fuzz", "run", self.target])
            .arg(&corpus)
            .arg("--")
            .arg(format!("-runs={}", self.runs))
            .arg(format!("-seed={}", seed))
            .arg("-max_len=8192")
            .arg("-len_control=0")
            .arg("-print_final_stats=1")
            // a slow input (a timer script that stays stuck up to the read budget, under ASan) is
            // not a finding: do not let libFuzzer save "slow-unit-*" files among the artifacts
            .arg("-report_slow_units=600")
            .arg(format!("-artifact_prefix={}/", arts.display()))
            .env("CARGO_NET_OFFLINE", "true")
            .env("VERIF_PROP", self.prop)
            .output();
        let out = match out {
            Ok(o) => o,
            Err(e) => {
                res.inconclusive = Some(format!("cannot run the fuzz target: {}", e));
                return res;
            }
        };
        let log = String::from_utf8_lossy(&out.stderr).to_string();
        let execs = log.lines().find_map(|l| l.strip_prefix("stat::number_of_executed_units:").map(|v| v.trim().parse::<u64>().unwrap_or(0))).unwrap_or(0);
        let cov = log.lines().rev().find_map(|l| l.split("cov: ").nth(1).map(|r| r.split_whitespace().next().unwrap_or("").to_string())).unwrap_or_default();
        res.evaluations = execs;
        res.extra.insert("libfuzzer_executions".into(), json!(execs));
        res.extra.insert("libfuzzer_cov".into(), json!(cov));
        res.extra.insert("armed_property".into(), json!(self.prop));
        // every executed input is a distinct generated case only approximately; count the final
        // corpus (inputs that reached new coverage) as the distinct non-trivial ones
        let mut corpus_files = 0u64;
        if let Ok(rd) = std::fs::read_dir(&corpus) {
            for e in rd.flatten() {
                corpus_files += 1;
                if res.samples.len() < 2 {
                    if let Ok(bytes) = std::fs::read(e.path()) {
                        res.samples.push(json!({"fuzz_input_hex": crate::hexser::hex(&bytes[..bytes.len().min(64)]), "len": bytes.len()}));
                    }
                }
                let h = crate::engine::fnv64(e.file_name().to_string_lossy().as_bytes());
                res.nontrivial_hashes.insert(h);
            }
        }
        res.extra.insert("final_corpus_files".into(), json!(corpus_files));
        let all_artifacts: Vec<PathBuf> = std::fs::read_dir(&arts).map(|rd| rd.flatten().map(|e| e.path()).collect()).unwrap_or_default();
        // only crash-like artifacts count; slow-unit reports are statistics, not failures
        let is_slow = |p: &PathBuf| p.file_name().map(|n| n.to_string_lossy().starts_with("slow-unit-")).unwrap_or(false);
        let slow_units = all_artifacts.iter().filter(|p| is_slow(p)).count();
        res.extra.insert("slow_units_reported".into(), json!(slow_units));
        let artifacts: Vec<PathBuf> = all_artifacts.into_iter().filter(|p| !is_slow(p)).collect();
        if !out.status.success() || !artifacts.is_empty() {
            let mut reported = false;
            for a in &artifacts {
                if let Ok(bytes) = std::fs::read(a) {
                    if let Some((sub, case, fail)) = fuzzdec::shrink_outcome(self.target, self.prop, &bytes) {
                        res.violation = Some(Violation { property: property.to_string(), subcheck: sub, case, fail });
                        reported = true;
                        break;
                    }
                }
            }
            if !reported {
                let tail: Vec<&str> = log.lines().rev().take(12).collect();
                res.inconclusive = Some(format!("libFuzzer stopped abnormally but no artifact reproduces an oracle failure in-process (timeout/OOM/sanitizer report?): {}", tail.into_iter().rev().collect::<Vec<_>>().join(" / ")));
            }
        }
        res.wall_s = t0.elapsed().as_secs_f64();
        res
    }

    fn replay(&self, _ctx: &Ctx, _case: &Value) -> Result<CheckResult, String> {
        // violations found by fuzzing are reported under the proptest sub-check that owns the
        // oracle, so this is never the replay entry point
        Ok(Ok(CaseInfo::new(false)))
    }
}

#[allow(dead_code)]
fn _unused(_: Fail) {}
