//! C06 — jump() and long_jump() equal 2^(n/2) and 2^(3n/4) single steps from every state.

use super::PropDef;
use crate::adapter::Ty;
use crate::engine::{CaseInfo, CheckResult, Ctx, ESub, Fail, PSub, SubCheck};
use crate::gens::{self, Seed};
use crate::gf2::Bits;
use crate::linear::{self, gen_in_state};
use proptest::prelude::*;
use serde::{Deserialize, Serialize};

#[derive(Clone, Debug, Serialize, Deserialize)]
pub struct BasisCase {
    pub ty: Ty,
    pub bit: usize,
    pub long: bool,
}

#[derive(Clone, Debug, Serialize, Deserialize)]
pub struct StateCase {
    pub ty: Ty,
    pub s: Seed,
    pub long: bool,
    pub outputs: usize,
}

#[derive(Clone, Debug, Serialize, Deserialize)]
pub struct PairCase {
    pub ty: Ty,
    pub a: Seed,
    pub b: Seed,
    pub long: bool,
}

#[derive(Clone, Debug, Serialize, Deserialize)]
pub struct CommuteCase {
    pub ty: Ty,
    pub s: Seed,
    pub k: usize,
    pub repeats: usize,
}

fn inconcl(e: String) -> Fail {
    Fail::inconclusive("C06:observation", e)
}
fn jname(long: bool) -> &'static str {
    if long {
        "long_jump"
    } else {
        "jump"
    }
}

fn check_state_bits(ty: Ty, s: &Bits, long: bool, outputs: usize, kind: &str) -> Result<(), Fail> {
    let name = ty.name();
    let n = ty.info().nbits;
    let (j, l) = linear::jump_matrices(ty).map_err(inconcl)?;
    let m = if long { &l } else { &j };
    let want = m.apply(s);
    if want.is_zero() {
        return Err(Fail::inconclusive("C06:model-zero", "T^(2^k)·s = 0 for a non-zero s: the step is not a bijection (C07's subject)"));
    }
    let mut g = gen_in_state(ty, s);
    if long {
        g.long_jump();
    } else {
        g.jump();
    }
    let mut expect = gen_in_state(ty, &want);
    if g.eq_dyn(&*expect) != Some(true) {
        let steps = if long { 3 * n / 4 } else { n / 2 };
        return Err(Fail::new(format!("C06:{}:{}:{}", jname(long), name, kind), format!("{}() does not land on the state reached by 2^{} single steps (computed as T^(2^{})·s with T extracted from this type's own next)", jname(long), steps, steps))
            .exp_act(crate::hexser::hex(&want.to_bytes(n / 8)), linear::state_of(&*g).ok().map(|b| crate::hexser::hex(&b.to_bytes(n / 8)))));
    }
    for k in 0..outputs {
        let (x, y) = (g.next_native(), expect.next_native());
        if x != y {
            return Err(Fail::new(format!("C06:{}-outputs:{}", jname(long), name), format!("output #{} after {}() differs from the stepped generator", k, jname(long))));
        }
    }
    Ok(())
}

pub fn check_basis(c: &BasisCase) -> CheckResult {
    check_state_bits(c.ty, &Bits::unit(c.bit), c.long, 0, "basis")?;
    Ok(CaseInfo::new(false).class(jname(c.long)))
}

/// the all-zero state (constructible only through Deserialize, where the type accepts it): the
/// statement quantifies over every state; 2^k steps from it are observed to stay there (one real
/// step is executed; if that moves, the step is C07's subject), so jump must leave it there too
pub fn check_zero(c: &BasisCase) -> CheckResult {
    let name = c.ty.name();
    let Some(mut g) = linear::try_gen_in_state(c.ty, &Bits::ZERO) else {
        return Ok(CaseInfo::new(false).class("zero-state-not-constructible"));
    };
    let stepped = linear::step(c.ty, &Bits::ZERO).map_err(inconcl)?;
    if !stepped.is_zero() {
        return Err(Fail::inconclusive("C06:model-zero", "one step moves the all-zero state: the step is not linear (C07's subject)"));
    }
    if c.long {
        g.long_jump();
    } else {
        g.jump();
    }
    let mut expect = linear::try_gen_in_state(c.ty, &Bits::ZERO).ok_or_else(|| inconcl("zero state constructible once but not twice".into()))?;
    if g.eq_dyn(&*expect) != Some(true) {
        return Err(Fail::new(format!("C06:{}:{}:zero-state", jname(c.long), name), format!("{}() moves the all-zero state, which every number of single steps leaves in place", jname(c.long))));
    }
    for k in 0..c.bit {
        if g.next_native() != expect.next_native() {
            return Err(Fail::new(format!("C06:{}-outputs:{}", jname(c.long), name), format!("output #{} after {}() from the all-zero state differs from the stepped generator", k, jname(c.long))));
        }
    }
    Ok(CaseInfo::new(false).class(jname(c.long)).class("zero-state"))
}

pub fn check_state(c: &StateCase) -> CheckResult {
    let s = Bits::from_bytes(&c.s.bytes);
    check_state_bits(c.ty, &s, c.long, c.outputs, "state")?;
    Ok(CaseInfo::new(s.weight() >= 2 && !gens::is_anchor(c.ty, &c.s.bytes)).class(jname(c.long)).class(format!("s:{}", c.s.class)))
}

/// the state is the preimage of a structured *target* under J resp. L: special cases keyed on
/// the result of the jump are reached
pub fn check_preimage(c: &StateCase) -> CheckResult {
    let t = Bits::from_bytes(&c.s.bytes);
    let (ji, li) = linear::jump_inverses(c.ty).map_err(inconcl)?;
    let s = if c.long { li.apply(&t) } else { ji.apply(&t) };
    if s.is_zero() {
        return Ok(CaseInfo::new(false).class("degenerate"));
    }
    check_state_bits(c.ty, &s, c.long, c.outputs, "preimage")?;
    Ok(CaseInfo::new(true).class(jname(c.long)).class(format!("t:{}", c.s.class)))
}

pub fn check_linear(c: &PairCase) -> CheckResult {
    let (a, b) = (Bits::from_bytes(&c.a.bytes), Bits::from_bytes(&c.b.bytes));
    let ab = a.xor(&b);
    if ab.is_zero() {
        // a == b: the relation is trivial, and the all-zero state need not be constructible
        return Ok(CaseInfo::new(false).class("degenerate-pair"));
    }
    if ab.is_zero() {
        return Ok(CaseInfo::new(false).class("a==b"));
    }
    let (ja, jb, jab) = (linear::jump(c.ty, &a, c.long).map_err(inconcl)?, linear::jump(c.ty, &b, c.long).map_err(inconcl)?, linear::jump(c.ty, &ab, c.long).map_err(inconcl)?);
    if ja.xor(&jb) != jab {
        return Err(Fail::new(format!("C06:{}-not-linear:{}", jname(c.long), c.ty.name()), format!("{}(a xor b) != {}(a) xor {}(b): it cannot be a power of the linear step", jname(c.long), jname(c.long), jname(c.long))));
    }
    Ok(CaseInfo::new(a.weight() >= 2 && b.weight() >= 2).class(jname(c.long)))
}

pub fn check_commute(c: &CommuteCase) -> CheckResult {
    let name = c.ty.name();
    let n = c.ty.info().nbits;
    let s = Bits::from_bytes(&c.s.bytes);
    // jump ∘ next^k == next^k ∘ jump (both jumps)
    for long in [false, true] {
        let mut x = gen_in_state(c.ty, &s);
        let mut y = gen_in_state(c.ty, &s);
        for _ in 0..c.k {
            x.next_native();
        }
        if long { x.long_jump(); y.long_jump(); } else { x.jump(); y.jump(); }
        for _ in 0..c.k {
            y.next_native();
        }
        if x.eq_dyn(&*y) != Some(true) {
            return Err(Fail::new(format!("C06:commute-step:{}:{}", jname(long), name), format!("{} does not commute with {} single steps", jname(long), c.k)));
        }
    }
    // jump ∘ long_jump == long_jump ∘ jump
    let mut x = gen_in_state(c.ty, &s);
    let mut y = gen_in_state(c.ty, &s);
    x.jump();
    x.long_jump();
    y.long_jump();
    y.jump();
    if x.eq_dyn(&*y) != Some(true) {
        return Err(Fail::new(format!("C06:commute-jumps:{}", name), "jump and long_jump do not commute"));
    }
    // repeated jumps enumerate pairwise different starting points equal to J^i·s
    let (j, _) = linear::jump_matrices(c.ty).map_err(inconcl)?;
    let mut g = gen_in_state(c.ty, &s);
    let mut model = s;
    let mut seen = vec![s];
    for i in 1..=c.repeats {
        g.jump();
        model = j.apply(&model);
        let got = linear::state_of(&*g).map_err(inconcl)?;
        if got != model {
            return Err(Fail::new(format!("C06:repeated-jump:{}", name), format!("{} repeated jumps do not land on J^{}·s", i, i)));
        }
        if seen.contains(&got) {
            return Err(Fail::new(format!("C06:jump-collision:{}", name), format!("{} repeated jumps return to an earlier starting point", i)));
        }
        seen.push(got);
    }
    let _ = n;
    Ok(CaseInfo::new(s.weight() >= 2 && c.k > 0).class(format!("s:{}", c.s.class)))
}

pub fn def(ctx: &Ctx) -> PropDef {
    let t = ctx.tier;
    let mut subs: Vec<Box<dyn SubCheck>> = Vec::new();
    for ty in Ty::jumpers() {
        let n = ty.info().nbits;
        subs.push(ESub::boxed(
            format!("basis/{}", ty.name()),
            (n * n) as u64,
            move || (0..n).flat_map(|bit| [BasisCase { ty, bit, long: false }, BasisCase { ty, bit, long: true }]).collect(),
            check_basis,
        ));
        subs.push(ESub::boxed(
            format!("zero-state/{}", ty.name()),
            4,
            move || [0usize, 8].into_iter().flat_map(|bit| [BasisCase { ty, bit, long: false }, BasisCase { ty, bit, long: true }]).collect(),
            check_zero,
        ));
        subs.push(PSub::boxed(
            format!("states/{}", ty.name()),
            t.pick(5000, 800_000),
            move || (gens::seed_for(ty, false), any::<bool>(), prop_oneof![Just(0usize), 1usize..=64]).prop_map(move |(s, long, outputs)| StateCase { ty, s, long, outputs }).boxed(),
            check_state,
        ));
        subs.push(PSub::boxed(
            format!("preimage/{}", ty.name()),
            t.pick(4000, 600_000),
            move || (gens::target_state(ty), any::<bool>(), prop_oneof![Just(0usize), 1usize..=8]).prop_map(move |(s, long, outputs)| StateCase { ty, s, long, outputs }).boxed(),
            check_preimage,
        ));
        subs.push(PSub::boxed(
            format!("linear/{}", ty.name()),
            t.pick(2000, 250_000),
            move || (gens::seed_for(ty, false), gens::seed_for(ty, false), any::<bool>()).prop_map(move |(a, b, long)| PairCase { ty, a, b, long }).boxed(),
            check_linear,
        ));
        subs.push(PSub::boxed(
            format!("commute/{}", ty.name()),
            t.pick(1500, 150_000),
            move || (gens::seed_for(ty, false), 0usize..=64, 1usize..=8).prop_map(move |(s, k, repeats)| CommuteCase { ty, s, k, repeats }).boxed(),
            check_commute,
        ));
    }
    PropDef {
        id: "C06",
        rule: "for each of the 12 jump-capable types: T is extracted from the type's own next (n executions on the basis states), J = T^(2^(n/2)) and L = T^(2^(3n/4)) by repeated squaring; then (a) jump()/long_jump() on ALL n basis states and on generated states (uniform, sparse, dense, special words, single byte) must land on from_seed(J·s) resp. from_seed(L·s) (== and up to 64 following outputs), (b) jump/long_jump are linear on generated pairs (so the basis result extends to every state), (a') the same on preimages J^-1·t / L^-1·t of structured TARGET states t (zero words, small words, equal / complementary / negated words, constant words), so that special cases keyed on the result of a jump are reached, (c) metamorphic relations without a model: jump∘next^k = next^k∘jump, jump∘long_jump = long_jump∘jump, up to 8 repeated jumps are pairwise different and equal J^i·s, (d) where Deserialize admits the all-zero state, jump()/long_jump() leave it in place like any number of steps (counted as trivial). Non-trivial = generated state of weight >= 2 that is not the crate's jump-test seed; distinct by hash of the case.".into(),
        explanation: Some("2^64 .. 2^384 single steps cannot be executed. The generated inputs establish that next is the linear map T (C07's linearity and agreement checks, repeated here for jump itself) and that jump is linear; two linear maps that agree on a basis agree everywhere, so agreement of jump() with J = T^(2^(n/2)) on all n basis states plus linearity of jump on generated pairs gives jump = J on every state, up to linearity outside the sampled pairs. J and L are computed exactly by n/2 resp. 3n/4 matrix squarings from the T of this build.".into()),
        assumptions: vec!["next and jump are GF(2)-linear outside the sampled states (sampled: BLR relation on generated pairs)".into(), "state observation = serde image validated by from_seed(image) == g".into()],
        subs,
    }
}
