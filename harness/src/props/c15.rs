//! C15 — JitterRng pool mixing is bijective: collection never destroys pool entropy.
//!
//! Uses the cfg(rngs_verif) hooks: pool get/set and one stir step. Three maps of the 64-bit
//! pool are observed on the real code: fold F(d, t) (one LFSR fold of a full 64-bit time value,
//! through timer_stats(false) over a constant timer), stir S(d), and a whole collection C_s(d)
//! (set pool, scripted timer s, next_u64).

use super::PropDef;
use crate::adapter::{self, Gen};
use crate::engine::{CaseInfo, CheckResult, Ctx, ESub, Fail, PSub, SubCheck};
use crate::gens::{self, TimerProg};
use crate::timer::Script;
use proptest::prelude::*;
use serde::{Deserialize, Serialize};
use std::collections::HashMap;

fn no_hook() -> Fail {
    Fail::inconclusive("C15:no-hook", "the cfg(rngs_verif) hooks are not compiled in")
}

pub fn fold(d: u64, t: u64) -> Result<u64, Fail> {
    let mut g = adapter::jitter_gen(Script::new(vec![t, t], 0), None, 16);
    let j = g.jitter().unwrap();
    if !j.set_pool(d) {
        return Err(no_hook());
    }
    j.timer_stats(false);
    j.pool().ok_or_else(no_hook)
}

/// one fold through `timer_stats(true)`: the time value `t`, then the two readings from which the
/// variable loop counts (memory access, LFSR) are derived
pub fn fold_var(d: u64, t: u64, r_mem: u64, r_lfsr: u64) -> Result<u64, Fail> {
    let mut g = adapter::jitter_gen(Script::new(vec![t, r_mem, r_lfsr, t], 0), None, 16);
    let j = g.jitter().unwrap();
    if !j.set_pool(d) {
        return Err(no_hook());
    }
    j.timer_stats(true);
    j.pool().ok_or_else(no_hook)
}

pub fn stir(d: u64) -> Result<u64, Fail> {
    let mut g = adapter::jitter_gen(Script::new(vec![1], 0), None, 16);
    let j = g.jitter().unwrap();
    if !j.set_pool(d) {
        return Err(no_hook());
    }
    j.stir_once();
    j.pool().ok_or_else(no_hook)
}

pub fn collect(d: u64, script: &Script, rounds: u8) -> Result<u64, Fail> {
    let mut g: Box<dyn Gen> = adapter::jitter_gen(script.clone(), Some(rounds), 2_000_000);
    if !g.jitter().unwrap().set_pool(d) {
        return Err(no_hook());
    }
    let v = g.next_u64();
    // the value returned is the pool
    if g.jitter().unwrap().pool() != Some(v) {
        return Err(Fail::inconclusive("C15:pool-observation", "next_u64 did not return the pool content"));
    }
    Ok(v)
}

/// rank of 64 column vectors and a kernel combination if deficient
fn rank64(cols: &[u64; 64]) -> (usize, Option<u64>) {
    let mut rows: Vec<(u64, u64)> = cols.iter().enumerate().map(|(i, c)| (*c, 1u64 << i)).collect();
    let mut rank = 0;
    for bit in 0..64 {
        if let Some(p) = (rank..64).find(|&r| (rows[r].0 >> bit) & 1 == 1) {
            rows.swap(rank, p);
            let (pv, pc) = rows[rank];
            for r in 0..64 {
                if r != rank && (rows[r].0 >> bit) & 1 == 1 {
                    rows[r].0 ^= pv;
                    rows[r].1 ^= pc;
                }
            }
            rank += 1;
        }
    }
    (rank, rows.iter().find(|(v, c)| *v == 0 && *c != 0).map(|(_, c)| *c))
}

#[derive(Clone, Debug, Serialize, Deserialize)]
pub enum MapSel {
    /// F(., t) for fixed t
    FoldPool { t: u64 },
    /// F(d, .) for fixed d
    FoldTime { d: u64 },
    Stir,
    Collect { prog: TimerProg, rounds: u8 },
    /// F(., t) through timer_stats(true): variable loop counts derived from the readings r1, r2
    FoldVar { t: u64, r1: u64, r2: u64 },
    /// the pool before -> after a whole `test_timer()` run over a scripted timer (it folds 400
    /// probe deltas into the pool, whether the verdict is Ok or Err); `zero_start`: the timer's
    /// first reading is 0, the quickest rejection
    TimerTest { prog: TimerProg, zero_start: bool },
    /// the start pool -> the pool after a generated history of public calls over a scripted timer
    /// (output calls, timer_stats, set_rounds, test_timer, clones): every call is a bijection of
    /// the pool for fixed readings, and which readings a call consumes does not depend on the
    /// pool, so the whole history is one — also when a half is pending while a later call runs
    History { prog: TimerProg, rounds: u8, ops: Vec<crate::props::c12::JOp> },
}

impl MapSel {
    fn name(&self) -> &'static str {
        match self {
            MapSel::FoldPool { .. } => "fold-in-pool",
            MapSel::FoldTime { .. } => "fold-in-time",
            MapSel::Stir => "stir",
            MapSel::Collect { .. } => "collection",
            MapSel::FoldVar { .. } => "fold-in-pool-var-rounds",
            MapSel::TimerTest { .. } => "test_timer-run",
            MapSel::History { .. } => "api-history",
        }
    }
    /// the time value this map folds first (for maps of the pool)
    fn own_time(&self) -> Option<u64> {
        match self {
            MapSel::FoldPool { t } | MapSel::FoldVar { t, .. } => Some(*t),
            MapSel::Collect { prog, .. } => {
                // the priming measurement folds reading #2 - reading #0, truncated to 32 bits and
                // sign-extended
                let sc = prog.script();
                Some(sc.at(2).wrapping_sub(sc.at(0)) as u32 as i32 as i64 as u64)
            }
            _ => None,
        }
    }
    fn eval(&self, x: u64) -> Result<u64, Fail> {
        match self {
            MapSel::FoldPool { t } => fold(x, *t),
            MapSel::FoldTime { d } => fold(*d, x),
            MapSel::Stir => stir(x),
            MapSel::Collect { prog, rounds } => collect(x, &prog.script(), *rounds),
            MapSel::FoldVar { t, r1, r2 } => fold_var(x, *t, *r1, *r2),
            MapSel::TimerTest { prog, zero_start } => {
                let mut sc = prog.script();
                if *zero_start {
                    let mut r = sc.readings.as_ref().clone();
                    r[0] = 0;
                    sc = Script::new(r, sc.tail_salt);
                }
                let mut g = adapter::jitter_gen(sc, None, 100_000);
                let j = g.jitter().unwrap();
                if !j.set_pool(x) {
                    return Err(no_hook());
                }
                let _ = j.test_timer();
                j.pool().ok_or_else(no_hook)
            }
            MapSel::History { prog, rounds, ops } => {
                use crate::props::c12::JOp;
                let mut g = adapter::jitter_gen(prog.script(), Some((*rounds).max(1)), 2_000_000);
                if !g.jitter().unwrap().set_pool(x) {
                    return Err(no_hook());
                }
                for op in ops {
                    match op {
                        JOp::U32 => {
                            g.next_u32();
                        }
                        JOp::U64 => {
                            g.next_u64();
                        }
                        JOp::Fill(n) => {
                            crate::ops::fill_unaligned(&mut *g, *n);
                        }
                        JOp::Stats(v) => {
                            g.jitter().unwrap().timer_stats(*v);
                        }
                        JOp::Rounds(r) => g.jitter().unwrap().set_rounds((*r).clamp(1, 8)),
                        JOp::TestTimer => {
                            let _ = g.jitter().unwrap().test_timer();
                        }
                        JOp::Clone => g = g.clone_box(),
                    }
                }
                g.jitter().unwrap().pool().ok_or_else(no_hook)
            }
        }
    }
}

#[derive(Clone, Debug, Serialize, Deserialize)]
pub struct TripleCase {
    pub map: MapSel,
    pub a: u64,
    pub b: u64,
    pub c: u64,
}

#[derive(Clone, Debug, Serialize, Deserialize)]
pub struct JointCase {
    pub d: [u64; 3],
    pub t: [u64; 3],
}

#[derive(Clone, Debug, Serialize, Deserialize)]
pub struct PairCase {
    pub map: MapSel,
    pub x: u64,
    /// xor difference (non-zero)
    pub diff: u64,
}

#[derive(Clone, Debug, Serialize, Deserialize)]
pub struct BirthdayCase {
    pub map: MapSel,
    pub start: u64,
    pub log2_samples: u32,
}

/// how the inputs of an orbit case are related
#[derive(Clone, Debug, Serialize, Deserialize)]
pub enum Rel {
    /// x' = one documented LFSR fold of x with the time value the map itself folds first
    ModelFoldOwn,
    /// x' = one documented LFSR fold of x with this time value
    ModelFold(u64),
    /// x' = the real code's single fold (timer_stats(false)) of x with the map's own time value
    RealFoldOwn,
    Rotl(u32),
    ModelStir,
    Add(u64),
}

/// inputs related by the building blocks of the step itself: x, g(x), g(g(x)), ... are pairwise
/// different pool contents (g is a bijection with long cycles) and must not be merged by the map
#[derive(Clone, Debug, Serialize, Deserialize)]
pub struct OrbitCase {
    pub map: MapSel,
    pub x: u64,
    pub rel: Rel,
    pub len: usize,
}

pub fn check_orbit(c: &OrbitCase) -> CheckResult {
    use crate::refmodel::jitter as jm;
    let own = c.map.own_time();
    let mut xs = vec![c.x];
    for _ in 1..c.len.clamp(2, 24) {
        let x = *xs.last().unwrap();
        let nx = match (&c.rel, own) {
            (Rel::ModelFoldOwn, Some(t)) => jm::fold(x, t),
            (Rel::RealFoldOwn, Some(t)) => fold(x, t)?,
            (Rel::ModelFold(t), _) => jm::fold(x, *t),
            (Rel::Rotl(k), _) => x.rotate_left(*k % 64),
            (Rel::ModelStir, _) => jm::stir(x),
            (Rel::Add(a), _) => x.wrapping_add(*a | 1),
            (_, None) => x.rotate_left(1) ^ 1,
        };
        xs.push(nx);
    }
    let ys: Vec<u64> = xs.iter().map(|x| c.map.eval(*x)).collect::<Result<_, _>>()?;
    let mut distinct_inputs = 0;
    for i in 0..xs.len() {
        for j in i + 1..xs.len() {
            if xs[i] != xs[j] {
                distinct_inputs += 1;
                if ys[i] == ys[j] {
                    return Err(collision(&c.map, xs[i], xs[j]));
                }
            }
        }
    }
    Ok(CaseInfo::new(distinct_inputs > 0).class(c.map.name()).class(match c.rel {
        Rel::ModelFoldOwn => "related-by:documented-fold-same-time",
        Rel::ModelFold(_) => "related-by:documented-fold-other-time",
        Rel::RealFoldOwn => "related-by:real-fold-same-time",
        Rel::Rotl(_) => "related-by:rotation",
        Rel::ModelStir => "related-by:documented-stir",
        Rel::Add(_) => "related-by:addition",
    }))
}

fn collision(map: &MapSel, x: u64, y: u64) -> Fail {
    Fail::new(format!("C15:collision:{}", map.name()), format!("two different inputs {:#018x} and {:#018x} are mapped to the same pool value: the {} step is not a bijection", x, y, map.name()))
}

/// affinity on a generated triple: M(a)^M(b)^M(c) = M(a^b^c); and if the map is affine its
/// linear part must have rank 64 (checked in `check_rank`). A non-affine map gets no algebraic
/// verdict: it falls through to the collision searches.
pub fn check_triple(c: &TripleCase) -> CheckResult {
    let m = &c.map;
    let (fa, fb, fc, fabc) = (m.eval(c.a)?, m.eval(c.b)?, m.eval(c.c)?, m.eval(c.a ^ c.b ^ c.c)?);
    let affine = fa ^ fb ^ fc == fabc;
    // whatever the algebra: these four evaluations must not collide on distinct inputs
    let ins = [c.a, c.b, c.c, c.a ^ c.b ^ c.c];
    let outs = [fa, fb, fc, fabc];
    for i in 0..4 {
        for j in i + 1..4 {
            if ins[i] != ins[j] && outs[i] == outs[j] {
                return Err(collision(m, ins[i], ins[j]));
            }
        }
    }
    let distinct = c.a != c.b && c.b != c.c && c.a != c.c && c.a != 0 && c.b != 0 && c.c != 0;
    Ok(CaseInfo::new(distinct).class(m.name()).class(if affine { "affine" } else { "not-affine" }))
}

/// the fold is affine jointly in (pool, time)
pub fn check_joint(c: &JointCase) -> CheckResult {
    let f: Vec<u64> = (0..3).map(|i| fold(c.d[i], c.t[i])).collect::<Result<_, _>>()?;
    let all = fold(c.d[0] ^ c.d[1] ^ c.d[2], c.t[0] ^ c.t[1] ^ c.t[2])?;
    let affine = f[0] ^ f[1] ^ f[2] == all;
    Ok(CaseInfo::new(c.d[0] != c.d[1] && c.t[0] != c.t[1]).class(if affine { "jointly-affine" } else { "not-jointly-affine" }))
}

/// differential pair: x and x^diff must not collide
pub fn check_pair(c: &PairCase) -> CheckResult {
    if c.diff == 0 {
        return Ok(CaseInfo::new(false).class("degenerate"));
    }
    let (fx, fy) = (c.map.eval(c.x)?, c.map.eval(c.x ^ c.diff)?);
    if fx == fy {
        return Err(collision(&c.map, c.x, c.x ^ c.diff));
    }
    Ok(CaseInfo::new(true).class(c.map.name()).class(match c.diff.count_ones() {
        1 => "diff:1-bit",
        2 => "diff:2-bit",
        _ => "diff:multi",
    }))
}

/// extract the 64 x 64 linear part from the basis and require rank 64; a rank defect yields a
/// kernel vector, hence an explicit colliding pair, which is executed and reported only if it
/// really collides. If the map is not affine on the probe triples there is no algebraic verdict.
pub fn check_rank(map: &MapSel) -> CheckResult {
    let f0 = map.eval(0)?;
    let mut cols = [0u64; 64];
    for i in 0..64 {
        cols[i] = map.eval(1u64 << i)? ^ f0;
    }
    // affinity probe with fixed spread-out triples (generated triples are checked separately)
    let mut affine = true;
    let mut z = 0x243F6A8885A308D3u64;
    for _ in 0..64 {
        z ^= z << 13;
        z ^= z >> 7;
        z ^= z << 17;
        let pred = (0..64).filter(|i| (z >> i) & 1 == 1).fold(f0, |acc, i| acc ^ cols[i]);
        if pred != map.eval(z)? {
            affine = false;
            break;
        }
    }
    if !affine {
        return Ok(CaseInfo::new(true).class(map.name()).class("not-affine:no-algebraic-verdict"));
    }
    // the map at its algebraically special points: a map that is affine on generic inputs may
    // still special-case the input for which the result equals the input (fixed point), or is 0
    // or all ones; the extracted (A, c) predicts those inputs, the real code must agree there —
    // if it does not, the affine part supplies a second preimage, i.e. an executed collision
    {
        use crate::gf2::{Bits, Matrix};
        let to_bits = |v: u64| {
            let mut b = Bits::ZERO;
            b.0[0] = v;
            b
        };
        let a = Matrix { n: 64, cols: cols.iter().map(|c| to_bits(*c)).collect() };
        let mut a_xor_i = a.clone();
        for (i, c) in a_xor_i.cols.iter_mut().enumerate() {
            c.0[0] ^= 1u64 << i;
        }
        let mut specials: Vec<(&str, Option<u64>)> = Vec::new();
        for (name, r) in [("fixed point", 0u64), ("result = !input", u64::MAX), ("result = input ^ 1", 1)] {
            specials.push((name, a_xor_i.solve(&to_bits(f0 ^ r)).map(|x| x.0[0])));
        }
        for (name, target) in [("result = 0", 0u64), ("result = all ones", u64::MAX), ("result = 1", 1)] {
            specials.push((name, a.solve(&to_bits(f0 ^ target)).map(|x| x.0[0])));
        }
        // whole collections: the inputs for which the pool is 0 / all ones at an intermediate
        // stage (after the first folds, before and after the stir), solved through the documented
        // procedure; the real map must follow its own affine rule there as well
        if let MapSel::Collect { prog, rounds } = map {
            let sc = prog.script();
            for (name, stage) in [("pool = 0 / ~0 before the stir", usize::MAX - 1), ("pool = 0 / ~0 before the last rotation", usize::MAX - 2), ("pool = 0 / ~0 after the first fold", 0usize), ("pool = 0 / ~0 after the first rotation", 1usize)] {
                for want in [0u64, u64::MAX] {
                    specials.push((name, crate::refmodel::jitter::pool_for_stage(&sc, 0, *rounds as u32, stage, want, 2_000_000)));
                }
            }
        }
        for (name, x) in specials {
            let Some(x) = x else { continue };
            let pred = (0..64).filter(|i| (x >> i) & 1 == 1).fold(f0, |acc, i| acc ^ cols[i]);
            let real = map.eval(x)?;
            if real != pred {
                // second preimage of `real` under the affine part
                if let Some(q) = a.solve(&to_bits(real ^ f0)).map(|b| b.0[0]) {
                    if q != x && map.eval(q)? == real {
                        return Err(Fail::new(format!("C15:collision:{}", map.name()), format!("the {} map treats its special input {:#018x} ({}) differently from the affine rule it follows elsewhere; that input and {:#018x} are both sent to {:#018x}: two different pool contents are merged", map.name(), x, name, q, real)));
                    }
                }
                return Err(Fail::inconclusive("C15:special-point", "the map deviates from its affine part at a special point but no collision could be executed"));
            }
        }
    }
    let (rank, kernel) = rank64(&cols);
    if rank != 64 {
        let k = kernel.unwrap();
        let (x, y) = (0x0123456789abcdefu64, 0x0123456789abcdefu64 ^ k);
        if map.eval(x)? == map.eval(y)? {
            return Err(Fail::new(format!("C15:collision:{}", map.name()), format!("the affine map {} has rank {} < 64; the kernel vector {:#018x} gives the executed collision {:#018x} / {:#018x}: two different pool contents are merged", map.name(), rank, k, x, y)));
        }
        return Err(Fail::inconclusive("C15:rank-witness", "rank-deficient matrix but the kernel witness does not collide on the real code"));
    }
    Ok(CaseInfo::new(true).class(map.name()).class("affine:rank-64"))
}

/// birthday search: 2^k outputs of the map over a generated arithmetic progression of inputs
pub fn check_birthday(c: &BirthdayCase) -> CheckResult {
    let n = 1usize << c.log2_samples;
    let mut seen: HashMap<u64, u64> = HashMap::with_capacity(n);
    let mut x = c.start;
    for _ in 0..n {
        let y = c.map.eval(x)?;
        if let Some(prev) = seen.insert(y, x) {
            if prev != x {
                return Err(collision(&c.map, prev, x));
            }
        }
        x = x.wrapping_add(0x9e3779b97f4a7c15);
    }
    Ok(CaseInfo::new(true).class(c.map.name()).class(format!("samples:2^{}", c.log2_samples)))
}

fn word() -> BoxedStrategy<u64> {
    prop_oneof![
        4 => any::<u64>(),
        2 => proptest::collection::vec(0u32..64, 1..=3).prop_map(|b| b.iter().fold(0u64, |a, i| a | 1 << i)),
        2 => proptest::collection::vec(0u32..64, 0..=3).prop_map(|b| !b.iter().fold(0u64, |a, i| a | 1 << i)),
        1 => Just(0u64),
        1 => any::<u32>().prop_map(|v| v as u64),
        1 => any::<u32>().prop_map(|v| (v as u64) << 32),
    ]
    .boxed()
}

fn map_sel(with_collect: bool) -> BoxedStrategy<MapSel> {
    let coll = (gens::timer_prog(false, 6), 1u8..=4).prop_map(|(prog, rounds)| MapSel::Collect { prog, rounds });
    let var = (word(), word(), word()).prop_map(|(t, r1, r2)| MapSel::FoldVar { t, r1, r2 });
    let tt = (gens::timer_prog(false, 4), proptest::bool::weighted(0.2)).prop_map(|(prog, zero_start)| MapSel::TimerTest { prog, zero_start });
    let hist = (gens::timer_prog(false, 6), 1u8..=3, proptest::collection::vec(prop_oneof![8 => crate::props::c12::jop(12), 2 => Just(crate::props::c12::JOp::TestTimer), 1 => Just(crate::props::c12::JOp::Clone)], 1..=5)).prop_map(|(prog, rounds, ops)| MapSel::History { prog, rounds, ops });
    if with_collect {
        prop_oneof![6 => word().prop_map(|t| MapSel::FoldPool { t }), 6 => word().prop_map(|d| MapSel::FoldTime { d }), 6 => Just(MapSel::Stir), 4 => coll, 4 => var, 1 => tt, 2 => hist].boxed()
    } else {
        prop_oneof![3 => word().prop_map(|t| MapSel::FoldPool { t }), 3 => word().prop_map(|d| MapSel::FoldTime { d }), 3 => Just(MapSel::Stir), 2 => var].boxed()
    }
}

pub fn def(ctx: &Ctx) -> PropDef {
    let t = ctx.tier;
    let mut subs: Vec<Box<dyn SubCheck>> = Vec::new();
    for part in 0..4 {
        subs.push(PSub::boxed(format!("affinity/{}", part), t.pick(15_000, 1_000_000), || (map_sel(true), word(), word(), word()).prop_map(|(map, a, b, c)| TripleCase { map, a, b, c }).boxed(), check_triple));
        subs.push(PSub::boxed(
            format!("differentials/{}", part),
            t.pick(25_000, 2_000_000),
            || {
                let diff = prop_oneof![
                    4 => (0u32..64).prop_map(|i| 1u64 << i),
                    3 => (0u32..64, 0u32..64).prop_map(|(i, j)| (1u64 << i) | (1u64 << j)),
                    2 => (0u32..8, 1u64..=255).prop_map(|(b, v)| v << (8 * b)),
                    2 => any::<u64>().prop_map(|v| v | 1),
                ];
                (map_sel(true), word(), diff).prop_map(|(map, x, diff)| PairCase { map, x, diff }).boxed()
            },
            check_pair,
        ));
        // width-related pairs: the same low w bits zero-extended and sign-extended (or extended by
        // arbitrary high bits). Code that narrows a value to i8 / i16 / i32 / u32 and widens it
        // again merges exactly such pairs, and no random pair is one.
        subs.push(PSub::boxed(
            format!("width-related/{}", part),
            t.pick(6_000, 500_000),
            || {
                let w = prop_oneof![6 => prop_oneof![Just(8u32), Just(16), Just(31), Just(32), Just(33)], 2 => 1u32..64];
                let map = prop_oneof![3 => word().prop_map(|t| MapSel::FoldPool { t }), 5 => word().prop_map(|d| MapSel::FoldTime { d }), 2 => Just(MapSel::Stir), 1 => map_sel(true)];
                (map, any::<u64>(), w, any::<bool>(), prop_oneof![3 => Just(u64::MAX), 1 => any::<u64>()]).prop_map(|(map, v, w, top, hi)| {
                    let low = (1u64 << w) - 1;
                    // low w bits, bit w-1 forced to `top`; x is its sign extension when top is set
                    let mut b = v & low;
                    if top {
                        b |= 1u64 << (w - 1);
                    } else {
                        b &= !(1u64 << (w - 1));
                    }
                    let ext = if top { !low } else { 0 };
                    let mut diff = hi & !low;
                    if diff == 0 {
                        diff = !low;
                    }
                    PairCase { map, x: b | ext, diff }
                }).boxed()
            },
            check_pair,
        ));
    }
    for part in 0..2 {
        subs.push(PSub::boxed(
            format!("orbit-related/{}", part),
            t.pick(10_000, 1_000_000),
            || {
                let rel = prop_oneof![
                    4 => Just(Rel::ModelFoldOwn),
                    3 => Just(Rel::RealFoldOwn),
                    2 => word().prop_map(Rel::ModelFold),
                    2 => prop_oneof![Just(1u32), Just(7), Just(57), Just(63), 1u32..64].prop_map(Rel::Rotl),
                    1 => Just(Rel::ModelStir),
                    1 => word().prop_map(Rel::Add),
                ];
                let coll = (gens::timer_prog(false, 6), 1u8..=4).prop_map(|(prog, rounds)| MapSel::Collect { prog, rounds });
                let var = (word(), word(), word()).prop_map(|(t, r1, r2)| MapSel::FoldVar { t, r1, r2 });
                let map = prop_oneof![2 => word().prop_map(|t| MapSel::FoldPool { t }), 1 => Just(MapSel::Stir), 4 => coll, 4 => var];
                (map, word(), rel, 4usize..=16).prop_map(|(map, x, rel, len)| OrbitCase { map, x, rel, len }).boxed()
            },
            check_orbit,
        ));
    }
    subs.push(PSub::boxed("fold-joint-affinity", t.pick(20_000, 1_000_000), || ([word(), word(), word()], [word(), word(), word()]).prop_map(|(d, t)| JointCase { d, t }).boxed(), check_joint));
    subs.push(PSub::boxed("rank/generated", t.pick(200, 5000), || map_sel(true).boxed(), check_rank));
    subs.push(ESub::boxed(
        "rank/fixed",
        10,
        || vec![MapSel::FoldPool { t: 0 }, MapSel::FoldPool { t: u64::MAX }, MapSel::FoldTime { d: 0 }, MapSel::FoldTime { d: u64::MAX }, MapSel::Stir],
        check_rank,
    ));
    let lg = t.pick(16u32, 21);
    subs.push(PSub::boxed("birthday", t.pick(8, 24), move || (map_sel(false), any::<u64>()).prop_map(move |(map, start)| BirthdayCase { map, start, log2_samples: lg }).boxed(), check_birthday));
    PropDef {
        id: "C15",
        rule: "three maps of the 64-bit pool are observed on the real code through the cfg(rngs_verif) hooks: the LFSR fold F(d,t) (in d for generated fixed t, in t for generated fixed d), the stir S(d), whole collections C_s(d) over generated timer scripts (fold + rotate-by-7 + stir composed), the fold with variable loop counts (timer_stats(true), loop-count readings generated), whole test_timer() runs over scripted timers (accepted and rejected ones), and generated histories of public calls (start pool -> pool after output calls, timer_stats, set_rounds, test_timer and clones, so that a call also runs while a half is pending). Generated inputs (uniform, sparse 1-3 bits, dense, half-word, zero): (1) affinity triples M(a)^M(b)^M(c) = M(a^b^c) with a pairwise collision test, and joint affinity of F in (d,t); (2) if affine: the 64x64 linear part extracted from the basis must have rank 64 (a defect gives a kernel vector and an executed colliding pair), and the real map must follow the affine rule also at its algebraically special inputs (fixed point, result = complement of input, result = 0 / all ones), solved for from the extracted map, and for whole collections at the inputs that make the pool 0 / all ones at an intermediate stage (after the first fold and rotation, before the last rotation, before the stir), solved through the documented procedure; (3) model-free collision search: single-bit, double-bit, byte and random differentials, a birthday search over 2^16 (thorough 2^21) outputs per map, and orbit-related inputs: chains x, g(x), g(g(x)), ... of 4-16 pool contents related by a building block g of the step itself (the documented or the real single LFSR fold with the time value the map folds first, another fold, a rotation, the documented stir, an addition) must be mapped to pairwise different results (a step that applies a building block a pool-dependent number of times merges exactly such inputs). Only an executed collision is a violation; a non-affine map gets no algebraic verdict. Width-related pairs (the same low 8/16/31/32/33/w bits zero-extended vs sign- or otherwise extended) must not collide either. Non-trivial = triple of three distinct non-zero values / pair with a non-zero difference; distinct by hash of the case.".into(),
        explanation: Some("2^64 x 2^64 inputs cannot be enumerated. The pool updates are XOR/shift/rotate networks, i.e. affine maps over GF(2); generated triples establish affinity (BLR test), the linear part is then read off the real code on the 64 basis inputs and its rank decides bijectivity exactly. The rotation by 7 cannot be isolated through the hooks, but a composition of maps on a finite set is bijective only if every factor is, so the rank of whole collections covers it. The LFSR taps themselves are C12's subject: a different but bijective fold does not alarm here.".into()),
        assumptions: vec!["affinity outside the sampled triples".into(), "hooks verif_pool / verif_set_pool / verif_stir_once observe and set JitterRng's pool without other effects".into()],
        subs,
    }
}
