//! C01 — xoshiro/xoroshiro/SplitMix64 output equals the Blackman–Vigna reference.

use super::PropDef;
use crate::adapter::{self, Ty};
use crate::engine::{CaseInfo, CheckResult, Ctx, Fail, PSub, SubCheck};
use crate::gens::{self, Seed};
use crate::refmodel::vigna::Model;
use proptest::prelude::*;
use serde::{Deserialize, Serialize};

#[derive(Clone, Debug, Serialize, Deserialize)]
pub struct StreamCase {
    pub ty: Ty,
    pub seed: Seed,
    pub steps: usize,
}

#[derive(Clone, Debug, Serialize, Deserialize)]
pub struct MixCase {
    pub seed: Seed,
    /// true = next_u32, false = next_u64
    pub calls: Vec<bool>,
}

fn nontrivial(ty: Ty, seed: &Seed, outs_high: bool) -> bool {
    let info = ty.info();
    let words = crate::refmodel::vigna::words_from_seed(ty, &seed.bytes);
    let big = words.iter().any(|&w| w >= 1u64 << (info.word / 2));
    !gens::is_anchor(ty, &seed.bytes) && big && outs_high
}

/// stream / one-step / long: outputs and successor state against the model
pub fn check_stream(c: &StreamCase) -> CheckResult {
    let info = c.ty.info();
    let mut g = adapter::from_seed(c.ty, &c.seed.bytes);
    let mut m = Model::from_seed(c.ty, &c.seed.bytes);
    let mut high = false;
    for k in 0..c.steps {
        let got = g.next_native();
        let want = m.next();
        if got != want {
            return Err(Fail::new(format!("C01:output:{}", info.name), format!("output #{} differs from the reference", k))
                .exp_act(format!("{:#x}", want), format!("{:#x}", got)));
        }
        if want >> (info.word / 2) != 0 {
            high = true;
        }
    }
    // successor state: the generator must equal from_seed(le_bytes(model state))
    if info.linear && m.is_zero() {
        return Err(Fail::inconclusive("C01:model-zero", "reference reached the all-zero state from a non-zero seed (C07's subject)"));
    }
    let expect = adapter::from_seed(c.ty, &m.state_bytes());
    match g.eq_dyn(&*expect) {
        Some(true) => {}
        Some(false) => {
            return Err(Fail::new(format!("C01:state:{}", info.name), format!("state after {} steps differs from the reference successor state", c.steps))
                .exp_act(format!("{:x?}", m.s), adapter::observe_state(&*g).map(|b| format!("{:x?}", crate::refmodel::vigna::words_from_seed(c.ty, &b)))));
        }
        None => return Err(Fail::inconclusive("C01:no-eq", "type offers no ==")),
    }
    Ok(CaseInfo::new(nontrivial(c.ty, &c.seed, high))
        .class(format!("seed:{}", c.seed.class))
        .class(match c.steps {
            0..=1 => "steps:1",
            2..=16 => "steps:2-16",
            17..=300 => "steps:17-300",
            _ => "steps:>300",
        }))
}

/// SplitMix64: next_u32 is the Mix4 finaliser of the same counter step, interleaved with next_u64
pub fn check_splitmix_mix(c: &MixCase) -> CheckResult {
    let mut g = adapter::from_seed(Ty::SplitMix64, &c.seed.bytes);
    let mut m = Model::from_seed(Ty::SplitMix64, &c.seed.bytes);
    let mut n32 = 0;
    for (k, &is32) in c.calls.iter().enumerate() {
        if is32 {
            n32 += 1;
            let got = g.next_u32();
            let want = m.splitmix_next_u32();
            if got != want {
                return Err(Fail::new("C01:splitmix-u32", format!("next_u32 at call #{} differs from staffordMix4Upper32 of the counter step", k))
                    .exp_act(format!("{:#x}", want), format!("{:#x}", got)));
            }
        } else {
            let got = g.next_u64();
            let want = m.next();
            if got != want {
                return Err(Fail::new("C01:splitmix-u64", format!("next_u64 at call #{} differs", k)).exp_act(format!("{:#x}", want), format!("{:#x}", got)));
            }
        }
    }
    let expect = adapter::from_seed(Ty::SplitMix64, &m.state_bytes());
    if g.eq_dyn(&*expect) != Some(true) {
        return Err(Fail::new("C01:splitmix-state", "counter differs from the reference after the calls"));
    }
    Ok(CaseInfo::new(n32 > 0 && n32 < c.calls.len() && !gens::is_anchor(Ty::SplitMix64, &c.seed.bytes)).class(format!("seed:{}", c.seed.class)))
}

/// T^-1 of the *reference model's* step (extracted from the model on the basis states)
fn model_inverse(ty: Ty) -> Option<std::sync::Arc<crate::gf2::Matrix>> {
    use crate::gf2::{Bits, Matrix};
    use std::collections::HashMap;
    use std::sync::{Arc, Mutex, OnceLock};
    static CACHE: OnceLock<Mutex<HashMap<Ty, Option<Arc<Matrix>>>>> = OnceLock::new();
    let mut g = CACHE.get_or_init(|| Mutex::new(HashMap::new())).lock().unwrap();
    g.entry(ty)
        .or_insert_with(|| {
            let info = ty.info();
            let n = info.nbits;
            let cols = (0..n)
                .map(|i| {
                    let mut m = Model::from_seed(ty, &Bits::unit(i).to_bytes(info.seed_len));
                    m.next();
                    Bits::from_bytes(&m.state_bytes())
                })
                .collect();
            Matrix { n, cols }.inverse().map(Arc::new)
        })
        .clone()
}

/// a seed `back` steps before a structured target state (of the reference model)
pub fn preimage_case(ty: Ty, target: &Seed, back: usize) -> StreamCase {
    use crate::gf2::Bits;
    let info = ty.info();
    let mut s = Bits::from_bytes(&target.bytes);
    if let Some(ti) = model_inverse(ty) {
        for _ in 0..back {
            s = ti.apply(&s);
        }
    }
    StreamCase { ty, seed: Seed { class: format!("pre:{}", target.class), bytes: s.to_bytes(info.seed_len) }, steps: back + 3 }
}

pub fn def(ctx: &Ctx) -> PropDef {
    let mut subs: Vec<Box<dyn SubCheck>> = Vec::new();
    let t = ctx.tier;
    for ty in Ty::xoshiro_family() {
        let zero_ok = ty == Ty::SplitMix64;
        let steps = prop_oneof![3 => Just(1usize), 4 => 2usize..=16, 3 => 17usize..=300, 1 => 301usize..=5000];
        subs.push(PSub::boxed(
            format!("stream/{}", ty.name()),
            t.pick(10_000, 1_000_000),
            move || (gens::seed_for(ty, zero_ok), steps.clone()).prop_map(move |(seed, steps)| StreamCase { ty, seed, steps }).boxed(),
            check_stream,
        ));
        if ty.info().linear {
            subs.push(PSub::boxed(
                format!("preimage/{}", ty.name()),
                t.pick(6000, 600_000),
                move || (gens::target_state(ty), 1usize..=6).prop_map(move |(target, back)| preimage_case(ty, &target, back)).boxed(),
                check_stream,
            ));
        }
        let long = t.pick(50_000usize, 5_000_000);
        subs.push(PSub::boxed(
            format!("long/{}", ty.name()),
            t.pick(20, 60),
            move || gens::seed_for(ty, zero_ok).prop_map(move |seed| StreamCase { ty, seed, steps: long }).boxed(),
            check_stream,
        ));
    }
    subs.push(PSub::boxed(
        "splitmix-mix4",
        t.pick(10_000, 1_000_000),
        || (gens::seed_for(Ty::SplitMix64, true), proptest::collection::vec(any::<bool>(), 1..60)).prop_map(|(seed, calls)| MixCase { seed, calls }).boxed(),
        check_splitmix_mix,
    ));
    PropDef {
        id: "C01",
        rule: "cases = (type in the 15 rand_xoshiro generators) x seed (weighted classes: uniform, sparse 1-3 bits, dense, special words 0/MAX/2^(w-1)/carry patterns, relational words (equal / complement / negation / disjoint / off-by-one of one base word), single byte, crate test seeds; preimages: seeds 1-6 steps BEFORE a structured target state, pulled back through the inverse of the reference step; SplitMix64: counters that wrap or whose value after an internal stage of the reference finalisers is structured, reached after 1-13 steps) x step count {1; 2-16; 17-300; <=5000; long runs}; every output word and the successor state (g == from_seed(le_bytes(model state))) are compared with the transliterated reference. Non-trivial = seed is not a crate test seed, some state word >= 2^(w/2) and some compared output has a bit set in its top half; distinct by hash of (type, seed, steps).".into(),
        explanation: None,
        assumptions: vec![
            "refmodel::vigna is a faithful transliteration of the published C sources (validated at start-up against golden vectors: the reference vectors quoted in the crate's tests and vectors from the independent Python model)".into(),
        ],
        subs,
    }
}
