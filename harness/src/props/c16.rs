//! C16 — JitterRng hands out every collected 64-bit value at most once, clones included.

use super::PropDef;
use crate::adapter::{self, Gen};
use crate::engine::{CaseInfo, CheckResult, Ctx, Fail, PSub, SubCheck};
use crate::gens::{self, TimerProg};
use proptest::prelude::*;
use serde::{Deserialize, Serialize};

pub const BUDGET: usize = 3_000_000;

#[derive(Clone, Debug, PartialEq, Eq, Serialize, Deserialize)]
pub enum POp {
    U32,
    U64,
    Fill(usize),
}

#[derive(Clone, Debug, Serialize, Deserialize)]
pub enum Rel {
    /// A: P, u32, u32  vs  B: P, u64
    R1,
    /// A: P, u32, X  vs  B: P, u64, X   (X = next_u64 or fill(n >= 5))
    R2 { x_fill: Option<usize> },
    /// A: P, u32, clone, clone.u32  vs  B: P, u64, u64
    R3,
}

#[derive(Clone, Debug, Serialize, Deserialize)]
pub struct RelCase {
    pub prog: TimerProg,
    pub rounds: u8,
    pub prefix: Vec<POp>,
    pub rel: Rel,
    /// if set: after the prefix the pool of both twins is preset (hook) such that the next
    /// collection returns exactly this structured value
    #[serde(default)]
    pub next_result: Option<u64>,
}

#[derive(Clone, Debug, PartialEq, Eq, Serialize, Deserialize)]
pub enum HOp {
    U32,
    U64,
    Fill(usize),
    /// clone the current instance; `switch` = continue on the clone (else keep the original, the
    /// clone is used later)
    Clone { switch: bool },
    /// switch to instance number (k mod live instances)
    Switch(usize),
    /// `current.clone_from(instance k mod live instances)`: like a clone, the target never
    /// returns a half afterwards — neither the source's nor the one it held itself
    CloneFrom(usize),
}

#[derive(Clone, Debug, Serialize, Deserialize)]
pub struct HistCase {
    pub prog: TimerProg,
    pub rounds: u8,
    pub ops: Vec<HOp>,
    /// injected fault: the timer closure panics once at this reading (the caller catches the
    /// unwind and goes on using the generator); the interrupted call handed out nothing, so
    /// whatever comes next must not be a value handed out before
    #[serde(default)]
    pub fault_at: Option<usize>,
}

fn apply(g: &mut dyn Gen, op: &POp) -> Vec<u8> {
    match op {
        POp::U32 => g.next_u32().to_le_bytes().to_vec(),
        POp::U64 => g.next_u64().to_le_bytes().to_vec(),
        POp::Fill(n) => crate::ops::fill_unaligned(g, *n),
    }
}

fn reads(g: &mut dyn Gen) -> usize {
    g.jitter().unwrap().reads()
}

pub fn check_rel(c: &RelCase) -> CheckResult {
    let script = c.prog.script();
    let mut a = adapter::jitter_gen(script.clone(), Some(c.rounds), BUDGET);
    let mut b = adapter::jitter_gen(script, Some(c.rounds), BUDGET);
    for op in &c.prefix {
        let (x, y) = (apply(&mut *a, op), apply(&mut *b, op));
        if x != y {
            return Err(Fail::new("C16:twin-diverged", "two JitterRng over identical timer scripts diverge on the same prefix"));
        }
    }
    let r = c.rounds as usize;
    let (ra0, rb0) = (reads(&mut *a), reads(&mut *b));
    if ra0 != rb0 {
        return Err(Fail::new("C16:twin-diverged", "two JitterRng over identical timer scripts consumed different numbers of readings"));
    }
    // pending half after the prefix, by the composition rule
    let mut pending_before = false;
    for op in &c.prefix {
        match op {
            POp::U32 => pending_before = !pending_before,
            POp::U64 => pending_before = false,
            POp::Fill(n) => {
                if n / 8 > 0 || n % 8 > 4 {
                    pending_before = false;
                }
                if (1..=4).contains(&(n % 8)) {
                    pending_before = !pending_before;
                }
            }
        }
    }
    // a half may be pending after the prefix; the relations are stated for "a next_u32 with no
    // half pending", so drain it identically on both sides first
    if pending_before {
        let (x, y) = (a.next_u64(), b.next_u64());
        if x != y {
            return Err(Fail::new("C16:twin-diverged", "twins diverge on next_u64 after the prefix"));
        }
    }
    let ra0 = reads(&mut *a);
    let mut targeted = false;
    if let Some(want) = c.next_result {
        if let Some(p0) = crate::refmodel::jitter::pool_for_result(&c.prog.script(), ra0, c.rounds as u32, want, BUDGET) {
            if a.jitter().unwrap().set_pool(p0) && b.jitter().unwrap().set_pool(p0) {
                targeted = true;
            }
        }
    }
    match &c.rel {
        Rel::R1 => {
            let lo = a.next_u32();
            let ra1 = reads(&mut *a);
            let hi = a.next_u32();
            let ra2 = reads(&mut *a);
            let v = b.next_u64();
            let rb1 = reads(&mut *b);
            if ra2 != ra1 {
                return Err(Fail::new("C16:R1:second-u32-reads-timer", "the second of two consecutive next_u32 calls read the timer").exp_act(0, ra2 - ra1));
            }
            if (lo as u64 | (hi as u64) << 32) != v {
                return Err(Fail::new("C16:R1:halves", "two consecutive next_u32 are not the low and then the high half of the value next_u64 returns in their place")
                    .exp_act(format!("{:#018x}", v), format!("lo {:#010x} hi {:#010x}", lo, hi)));
            }
            if ra1 - ra0 < r {
                return Err(Fail::new("C16:R1:fresh-collection-reads", "a next_u32 with no half pending read the timer fewer than `rounds` times").exp_act(format!(">= {}", r), ra1 - ra0));
            }
            if ra2 != rb1 {
                return Err(Fail::new("C16:R1:total-reads", "u32;u32 and u64 consumed different numbers of readings").exp_act(rb1, ra2));
            }
        }
        Rel::R2 { x_fill } => {
            let _ = a.next_u32();
            let _ = b.next_u64();
            let (ra1, rb1) = (reads(&mut *a), reads(&mut *b));
            let x = match x_fill {
                Some(n) => POp::Fill((*n).max(5)),
                None => POp::U64,
            };
            let (va, vb) = (apply(&mut *a, &x), apply(&mut *b, &x));
            let (ra2, rb2) = (reads(&mut *a), reads(&mut *b));
            if va != vb {
                return Err(Fail::new("C16:R2:pending-half-reused", format!("after next_u32, {:?} does not return what it returns after next_u64 in its place: the pending half influenced a later output", x))
                    .exp_act(crate::hexser::hex(&vb), crate::hexser::hex(&va)));
            }
            if ra2 - ra1 < r {
                return Err(Fail::new("C16:R2:fresh-collection-reads", format!("{:?} after a pending half read the timer fewer than `rounds` times", x)).exp_act(format!(">= {}", r), ra2 - ra1));
            }
            if ra2 - ra1 != rb2 - rb1 {
                return Err(Fail::new("C16:R2:reads", "the call after a discarded half consumed a different number of readings").exp_act(rb2 - rb1, ra2 - ra1));
            }
        }
        Rel::R3 => {
            let _ = a.next_u32();
            let mut cl = a.clone_box();
            let ra1 = reads(&mut *a);
            let cv = cl.next_u32();
            let ra2 = reads(&mut *cl);
            let _ = b.next_u64();
            let second = b.next_u64();
            if ra2 - ra1 < r {
                return Err(Fail::new("C16:R3:clone-no-fresh-collection", "the first next_u32 of a clone taken while a half was pending read the timer fewer than `rounds` times (it returned the half its original still holds)").exp_act(format!(">= {}", r), ra2 - ra1));
            }
            if cv != second as u32 {
                return Err(Fail::new("C16:R3:clone-value", "the clone's first next_u32 is not the low half of a fresh collection").exp_act(format!("{:#010x}", second as u32), format!("{:#010x}", cv)));
            }
            // and the original still hands out its own high half without reading the timer
            let before = reads(&mut *a);
            let _hi = a.next_u32();
            if reads(&mut *a) != before {
                return Err(Fail::new("C16:R3:original-lost-half", "after being cloned the original's pending half was not handed out (it read the timer)"));
            }
        }
    }
    Ok(CaseInfo::new(true)
        .class(match c.rel {
            Rel::R1 => "R1",
            Rel::R2 { .. } => "R2",
            Rel::R3 => "R3",
        })
        .class_if(targeted, "next-result-targeted")
        .class_if(pending_before, "prefix-left-half-pending")
        .class_if(c.rounds >= 64, "rounds>=64")
        .class_if(c.prog.hostile(), "hostile-deltas"))
}

/// R4: model-free bookkeeping over a history with clones. Per instance a `pending` flag is
/// maintained by the composition rule; a call that needs no collection must read the timer
/// zero times, every collection reads it at least `rounds` times.
pub fn check_hist(c: &HistCase) -> CheckResult {
    let script = c.prog.script();
    let first = match c.fault_at {
        Some(at) => adapter::jitter_gen_faulty(script, Some(c.rounds), BUDGET, at),
        None => adapter::jitter_gen(script, Some(c.rounds), BUDGET),
    };
    let mut inst: Vec<(Box<dyn Gen>, bool)> = vec![(first, false)];
    let mut faulted = false;
    let mut cur = 0usize;
    let r = c.rounds as usize;
    let mut interesting = false;
    let mut clone_while_pending = false;
    for (k, op) in c.ops.iter().enumerate() {
        match op {
            HOp::Clone { switch } => {
                if inst.len() >= 6 {
                    continue;
                }
                if inst[cur].1 {
                    clone_while_pending = true;
                }
                let cl = inst[cur].0.clone_box();
                inst.push((cl, false)); // a clone never inherits a pending half
                if *switch {
                    cur = inst.len() - 1;
                }
            }
            HOp::Switch(i) => cur = i % inst.len(),
            HOp::CloneFrom(i) => {
                let j = i % inst.len();
                if j == cur {
                    continue;
                }
                if inst[cur].1 || inst[j].1 {
                    clone_while_pending = true;
                }
                let src = inst[j].0.clone_box();
                // the source itself, not a copy of it: take it out of the list for the call
                let (real_src, src_pending) = std::mem::replace(&mut inst[j], (src, false));
                let ok = inst[cur].0.clone_from_dyn(&*real_src);
                inst[j] = (real_src, src_pending);
                if !ok {
                    return Err(Fail::inconclusive("C16:clone_from", "clone_from between two JitterRng instances of the harness failed"));
                }
                inst[cur].1 = false;
            }
            HOp::U32 | HOp::U64 | HOp::Fill(_) => {
                let (g, pending) = &mut inst[cur];
                let before = g.jitter().unwrap().reads();
                // number of fresh collections this call needs under the composition rule
                let collections = match op {
                    HOp::U32 => {
                        if *pending {
                            interesting = true;
                            *pending = false;
                            0
                        } else {
                            *pending = true;
                            1
                        }
                    }
                    HOp::U64 => {
                        if *pending {
                            interesting = true;
                        }
                        *pending = false;
                        1
                    }
                    HOp::Fill(n) => {
                        let mut cnt = n / 8;
                        if cnt > 0 {
                            if *pending {
                                interesting = true;
                            }
                            *pending = false;
                        }
                        match n % 8 {
                            0 => {}
                            5..=7 => {
                                if *pending {
                                    interesting = true;
                                }
                                *pending = false;
                                cnt += 1;
                            }
                            _ => {
                                if *pending {
                                    interesting = true;
                                    *pending = false;
                                } else {
                                    *pending = true;
                                    cnt += 1;
                                }
                            }
                        }
                        cnt
                    }
                    _ => unreachable!(),
                };
                let unwound = std::panic::catch_unwind(std::panic::AssertUnwindSafe(|| match op {
                    HOp::U32 => {
                        g.next_u32();
                    }
                    HOp::U64 => {
                        g.next_u64();
                    }
                    HOp::Fill(n) => {
                        crate::ops::fill_unaligned(&mut **g, *n);
                    }
                    _ => {}
                }));
                if let Err(payload) = unwound {
                    let rec = crate::engine::take_last_panic();
                    if payload.downcast_ref::<crate::timer::TimerFault>().is_some() {
                        // the call was interrupted inside a collection: it returned nothing, and
                        // (next_u64 and fill clear the flag first, next_u32 only collects when
                        // nothing is pending) no half is pending afterwards
                        *pending = false;
                        faulted = true;
                        continue;
                    }
                    if payload.downcast_ref::<crate::timer::TimerBudget>().is_some() {
                        return Err(Fail::inconclusive("C16:budget", "timer script is stuck"));
                    }
                    let rec = rec.unwrap_or_default();
                    return Err(Fail::new(crate::engine::panic_signature(&rec), format!("op #{} {:?} panicked: {}", k, op, rec)));
                }
                let used = g.jitter().unwrap().reads() - before;
                if collections == 0 && used != 0 {
                    return Err(Fail::new("C16:R4:half-not-served", format!("op #{} {:?} on instance {} should hand out the pending half without reading the timer", k, op, cur)).exp_act(0, used));
                }
                if used < collections * r {
                    return Err(Fail::new("C16:R4:value-handed-out-twice", format!("op #{} {:?} on instance {} needs {} fresh collection(s) but read the timer only {} times (< rounds = {} each): a previously collected value was handed out again", k, op, cur, collections, used, r))
                        .exp_act(format!(">= {}", collections * r), used));
                }
            }
        }
    }
    Ok(CaseInfo::new(interesting || clone_while_pending || faulted)
        .class_if(faulted, "timer-panicked-during-a-call")
        .class_if(clone_while_pending, "clone-while-half-pending")
        .class_if(interesting, "pending-half-then-other-op")
        .class(format!("instances:{}", inst.len().min(4))))
}

pub fn def(ctx: &Ctx) -> PropDef {
    let t = ctx.tier;
    let mut subs: Vec<Box<dyn SubCheck>> = Vec::new();
    let rounds = || prop_oneof![10 => 1u8..=6, 3 => 7u8..=40, 1 => Just(64u8), 1 => Just(255u8), 1 => 41u8..=255];
    let pop = || prop_oneof![4 => Just(POp::U32), 4 => Just(POp::U64), 2 => (0usize..=20).prop_map(POp::Fill)];
    for part in 0..8 {
        subs.push(PSub::boxed(
            format!("relations/{}", part),
            t.pick(1500, 150_000),
            move || {
                let rel = prop_oneof![3 => Just(Rel::R1), 3 => proptest::option::of(5usize..=40).prop_map(|x_fill| Rel::R2 { x_fill }), 3 => Just(Rel::R3)];
                (gens::timer_prog(true, 10), rounds(), proptest::collection::vec(pop(), 0..=5), rel, proptest::option::weighted(0.3, crate::props::c12::structured_value()))
                    .prop_map(|(prog, rounds, prefix, rel, next_result)| RelCase { prog, rounds, prefix, rel, next_result })
                    .boxed()
            },
            check_rel,
        ));
        subs.push(PSub::boxed(
            format!("history/{}", part),
            t.pick(1500, 150_000),
            move || {
                let hop = prop_oneof![
                    6 => Just(HOp::U32),
                    4 => Just(HOp::U64),
                    3 => (0usize..=20).prop_map(HOp::Fill),
                    3 => any::<bool>().prop_map(|switch| HOp::Clone { switch }),
                    2 => (0usize..6).prop_map(HOp::CloneFrom),
                    2 => (0usize..6).prop_map(HOp::Switch),
                ];
                (gens::timer_prog(true, 10), rounds(), proptest::collection::vec(hop, 1..=20), proptest::option::weighted(0.25, prop_oneof![2 => 0usize..40, 1 => 0usize..400]))
                    .prop_map(|(prog, rounds, ops, fault_at)| {
                        // faults at the first reading of a collection are the sharpest: the pool
                        // still holds the value handed out last (one reading for the time stamp
                        // + three per measurement, rounds + 1 measurements without stuck ones)
                        let per = 1 + 3 * (rounds as usize + 1);
                        let fault_at = fault_at.map(|f| if f % 3 == 0 { (f / 3 % 8) * per } else { f });
                        HistCase { prog, rounds, ops, fault_at }
                    })
                    .boxed()
            },
            check_hist,
        ));
    }
    if ctx.tier == crate::engine::Tier::Thorough {
        subs.push(crate::props::fuzzsub::FuzzSub::boxed("fz_jitter", "C16", 150000, false));
        subs.push(crate::props::fuzzsub::FuzzSub::boxed("fz_jitter", "C16", 150000, true));
    }
    PropDef {
        id: "C16",
        rule: "cases = timer delta program (incl. hostile deltas) x rounds 1..=255 x (a) twin relations after a generated prefix, optionally with the pool preset (hook) so that the next collected value is structured (0, a zero half, all ones, single bit): R1 u32;u32 == (low, high) of u64 with zero reads in the second call and equal totals; R2 the call after a pending half (next_u64 or fill(n>=5)) returns what it returns after next_u64 in place of the u32, reading >= rounds; R3 the first next_u32 of a clone taken while a half is pending is the low half of a fresh collection (>= rounds reads) and the original still serves its own half; (b) R4: histories of next_u32/next_u64/fill_bytes/clone/switch over up to 6 instances sharing one timer, with model-free bookkeeping: a call that needs no collection reads the timer zero times, every needed collection reads it >= rounds times. fill(n) follows the composition rule (a tail of 1..4 bytes is a next_u32). Non-trivial = every relation case; a history with a pending half followed by another op or a clone taken while a half is pending; distinct by hash of the case.".into(),
        explanation: None,
        assumptions: vec!["fill_bytes(n <= 4) directly after next_u32 takes the pending half (the statement's composition rule and the crate's documented intent); it is not flagged".into()],
        subs,
    }
}
