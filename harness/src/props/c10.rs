//! C10 — clone() and == are congruences: equal generators have identical futures.

use super::PropDef;
use crate::adapter::{self, Gen, Ty};
use crate::engine::{CaseInfo, CheckResult, Ctx, Fail, PSub, SubCheck};
use crate::gens::{self, Ctor, GenSpec, Op};
use crate::ops::{apply, fmt_val};
use proptest::prelude::*;
use rand_core::block::BlockRngCore;
use rand_core::SeedableRng;
use serde::{Deserialize, Serialize};
use serde_json::Value;

#[derive(Clone, Debug, Serialize, Deserialize)]
pub struct CloneCase {
    pub spec: GenSpec,
    pub pre: usize,
    pub hist: Vec<Op>,
    pub cont: Vec<Op>,
    /// Some(h): use `Clone::clone_from` into an existing generator (same constructor, history
    /// `h`, i.e. usually another position) instead of `clone()`
    #[serde(default)]
    pub into_existing: Option<Vec<Op>>,
    /// Some(l): the target of `clone_from` is a clone of the source itself advanced by the few
    /// operations `l` (checkpoint / roll-back within one lineage: same seed, nearly the same
    /// position, e.g. differing only in a pending half)
    #[serde(default)]
    pub lineage: Option<Vec<Op>>,
}

#[derive(Clone, Debug, Serialize, Deserialize)]
pub enum PairMode {
    /// identical histories
    Same,
    /// same words consumed, different chunking (u64 <-> u32;u32, fill(8) <-> u64, ...)
    Rechunk,
    /// b consumes one extra call: 0 = next_u32, 1 = next_u64, 2 = fill_bytes(1)
    Extra(u8),
    /// unrelated history for b
    Independent(Vec<Op>),
    /// b is built from a's seed with one bit flipped (from_seed constructors only)
    SeedFlip(usize),
    /// b = a's serde image with one numeric state field changed (xor `delta`), restored through
    /// the public Deserialize
    Crafted { field: usize, delta: u64 },
}

#[derive(Clone, Debug, Serialize, Deserialize)]
pub struct PairCase {
    pub spec: GenSpec,
    pub pre: usize,
    pub hist: Vec<Op>,
    pub mode: PairMode,
    pub cont: Vec<Op>,
}

#[derive(Clone, Debug, Serialize, Deserialize)]
pub struct HcPosCase {
    pub seed: gens::Seed,
    pub block: usize,
    pub ca: usize,
    pub cb: usize,
}

fn run(g: &mut dyn Gen, pre: usize, ops: &[Op]) {
    for _ in 0..pre {
        g.next_native();
    }
    for op in ops {
        apply(g, op);
    }
}

/// apply `ops` to both; first difference as Err
fn lockstep(a: &mut dyn Gen, b: &mut dyn Gen, ops: &[Op]) -> Result<(), (usize, String, String)> {
    for (k, op) in ops.iter().enumerate() {
        let va = apply(a, op);
        let vb = apply(b, op);
        if va != vb {
            return Err((k, va.map(|v| fmt_val(&v)).unwrap_or_default(), vb.map(|v| fmt_val(&v)).unwrap_or_default()));
        }
    }
    // and a few native words at the end (jumps return nothing by themselves)
    for k in 0..3 {
        let (x, y) = (a.next_native(), b.next_native());
        if x != y {
            return Err((ops.len() + k, format!("{:#x}", x), format!("{:#x}", y)));
        }
    }
    Ok(())
}

pub fn check_clone(c: &CloneCase) -> CheckResult {
    let _ = adapter::take_ne_inconsistency();
    let r = check_clone_inner(c);
    if let (Ok(_), Some(t)) = (&r, adapter::take_ne_inconsistency()) {
        return Err(Fail::new(format!("C10:ne-inconsistent:{}", t.rsplit("::").next().unwrap_or(t)), "`a != b` is not the negation of `a == b` for two generators compared in this case"));
    }
    r
}

fn check_clone_inner(c: &CloneCase) -> CheckResult {
    let info = c.spec.ty().info();
    let mut g = c.spec.build();
    run(&mut *g, c.pre, &c.hist);
    let mut cl = match (&c.lineage, &c.into_existing) {
        (Some(l), _) => {
            let mut t = g.clone_box();
            for op in l {
                apply(&mut *t, op);
            }
            t.clone_from_dyn(&*g);
            t
        }
        (None, None) => g.clone_box(),
        (None, Some(h)) => {
            let mut t = c.spec.build();
            run(&mut *t, 0, h);
            t.clone_from_dyn(&*g);
            t
        }
    };
    if info.eq && cl.eq_dyn(&*g) != Some(true) {
        return Err(Fail::new(format!("C10:clone-ne:{}", info.name), if c.into_existing.is_some() || c.lineage.is_some() { "after clone_from() the target does not compare equal to the source" } else { "clone() does not compare equal to the original" }));
    }
    if let Err((k, va, vb)) = lockstep(&mut *g, &mut *cl, &c.cont) {
        return Err(Fail::new(format!("C10:clone-future:{}", info.name), format!("clone and original return different values at continuation op #{}", k)).exp_act(va, vb));
    }
    if info.eq && cl.eq_dyn(&*g) != Some(true) {
        return Err(Fail::new(format!("C10:clone-ne-after:{}", info.name), "clone and original are no longer equal after the same continuation"));
    }
    let fresh = c.pre == 0 && c.hist.is_empty();
    Ok(CaseInfo::new(!fresh && c.cont.len() >= 2)
        .class(c.spec.class())
        .class_if(c.hist.iter().any(|o| matches!(o, Op::Jump | Op::LongJump)), "hist-has-jump")
        .class_if(c.cont.iter().any(|o| matches!(o, Op::Jump | Op::LongJump)), "cont-has-jump")
        .class_if(c.into_existing.is_some() || c.lineage.is_some(), "clone_from")
        .class_if(c.lineage.is_some(), "clone_from-within-lineage")
        .class_if(c.hist.last() == Some(&Op::U32), "cloned-after-u32"))
}

fn rechunk(ops: &[Op], word: u32, buffered: bool) -> Vec<Op> {
    let mut out = Vec::new();
    for (i, op) in ops.iter().enumerate() {
        match op {
            Op::U64 if word == 32 => {
                out.push(Op::U32);
                out.push(Op::U32);
            }
            Op::U64 => out.push(Op::Fill(8)),
            Op::U32 if word == 32 => out.push(Op::Fill(4)),
            Op::Fill(n) if *n >= 16 && n % 8 == 0 && (i % 2 == 0 || buffered) => {
                out.push(Op::Fill(8));
                out.push(Op::Fill(n - 8));
            }
            Op::Fill(8) => out.push(Op::U64),
            o => out.push(o.clone()),
        }
    }
    out
}

fn tweak_json(v: &mut Value, field: usize, delta: u64) -> bool {
    // collect paths of numeric leaves (not under an "index" key)
    fn walk<'a>(v: &'a mut Value, key: &str, out: &mut Vec<&'a mut Value>) {
        match v {
            Value::Number(_) if key != "index" => out.push(v),
            Value::Array(a) => {
                for x in a.iter_mut() {
                    walk(x, key, out);
                }
            }
            Value::Object(m) => {
                for (k, x) in m.iter_mut() {
                    let k = k.clone();
                    walk(x, &k, out);
                }
            }
            _ => {}
        }
    }
    let mut leaves = Vec::new();
    walk(v, "", &mut leaves);
    if leaves.is_empty() {
        return false;
    }
    let i = field % leaves.len();
    let cur = leaves[i].as_u64().unwrap_or(0);
    // low-bit changes stay inside the field's range (u32 fields stay u32)
    let d = (delta & 0xffff_ffff).max(1);
    let new = cur ^ d;
    *leaves[i] = Value::from(if cur > u32::MAX as u64 || new <= u32::MAX as u64 { new } else { cur ^ 1 });
    true
}

pub fn check_pair(c: &PairCase) -> CheckResult {
    let _ = adapter::take_ne_inconsistency();
    let r = check_pair_inner(c);
    if let (Ok(_), Some(t)) = (&r, adapter::take_ne_inconsistency()) {
        return Err(Fail::new(format!("C10:ne-inconsistent:{}", t.rsplit("::").next().unwrap_or(t)), "`a != b` is not the negation of `a == b` for two generators compared in this case"));
    }
    r
}

fn check_pair_inner(c: &PairCase) -> CheckResult {
    let ty = c.spec.ty();
    let info = ty.info();
    let mut a = c.spec.build();
    run(&mut *a, c.pre, &c.hist);
    let mut b: Box<dyn Gen>;
    let mut label = "same";
    match &c.mode {
        PairMode::Same => {
            b = c.spec.build();
            run(&mut *b, c.pre, &c.hist);
        }
        PairMode::Rechunk => {
            label = "rechunk";
            b = c.spec.build();
            run(&mut *b, c.pre, &rechunk(&c.hist, info.word, info.block > 0));
        }
        PairMode::Extra(k) => {
            label = "extra-call";
            b = c.spec.build();
            run(&mut *b, c.pre, &c.hist);
            apply(&mut *b, &match k % 3 { 0 => Op::U32, 1 => Op::U64, _ => Op::Fill(1) });
        }
        PairMode::Independent(h) => {
            label = "independent";
            b = c.spec.build();
            run(&mut *b, c.pre, h);
        }
        PairMode::SeedFlip(bit) => {
            label = "seed-flip";
            match &c.spec {
                GenSpec::Det { ty, ctor: Ctor::Seed(s) } => {
                    let mut s2 = s.bytes.clone();
                    let p = bit % (s2.len() * 8);
                    s2[p / 8] ^= 1 << (p % 8);
                    b = adapter::from_seed(*ty, &s2);
                    run(&mut *b, c.pre, &c.hist);
                }
                _ => return Ok(CaseInfo::new(false).class("degenerate")),
            }
        }
        PairMode::Crafted { field, delta } => {
            label = "crafted";
            let js = match a.json() {
                Some(j) => j,
                None => return Ok(CaseInfo::new(false).class("degenerate")),
            };
            let mut v: Value = serde_json::from_str(&js).unwrap();
            if !tweak_json(&mut v, *field, *delta) {
                return Ok(CaseInfo::new(false).class("degenerate"));
            }
            b = match adapter::from_json(ty, &v.to_string()) {
                Ok(b) => b,
                Err(_) => return Ok(CaseInfo::new(false).class("degenerate")),
            };
        }
    }
    let eq = a.eq_dyn(&*b);
    if let Some(sym) = b.eq_dyn(&*a) {
        if Some(sym) != eq {
            return Err(Fail::new(format!("C10:eq-asymmetric:{}", info.name), "a == b and b == a disagree"));
        }
    }
    if matches!(c.mode, PairMode::Same) && eq == Some(false) {
        return Err(Fail::new(format!("C10:same-history-ne:{}", info.name), "two generators built and driven identically compare unequal (== must hold for clones, and these are indistinguishable from clones)"));
    }
    if eq == Some(true) {
        if let Err((k, va, vb)) = lockstep(&mut *a, &mut *b, &c.cont) {
            return Err(Fail::new(format!("C10:eq-future:{}:{}", info.name, label), format!("a == b but they return different values at continuation op #{} (pair mode {})", k, label)).exp_act(va, vb));
        }
        if a.eq_dyn(&*b) != Some(true) {
            return Err(Fail::new(format!("C10:eq-not-preserved:{}:{}", info.name, label), "a == b before but not after the same continuation"));
        }
    }
    Ok(CaseInfo::new((c.pre > 0 || !c.hist.is_empty()) && c.cont.len() >= 2 && eq.is_some())
        .class(format!("mode:{}", label))
        .class(match eq {
            Some(true) => "eq:true",
            Some(false) => "eq:false",
            None => "eq:unavailable",
        }))
}

#[derive(Clone, Debug, Serialize, Deserialize)]
pub struct BitPairCase {
    pub ty: Ty,
    pub base: gens::Seed,
    pub i: usize,
    pub j: usize,
}

pub fn check_bit_pair(c: &BitPairCase) -> CheckResult {
    let _ = adapter::take_ne_inconsistency();
    let r = check_bit_pair_inner(c);
    if let (Ok(_), Some(t)) = (&r, adapter::take_ne_inconsistency()) {
        return Err(Fail::new(format!("C10:ne-inconsistent:{}", t.rsplit("::").next().unwrap_or(t)), "`a != b` is not the negation of `a == b` for two generators compared in this case"));
    }
    r
}

fn check_bit_pair_inner(c: &BitPairCase) -> CheckResult {
    let mut s2 = c.base.bytes.clone();
    s2[c.i / 8] ^= 1 << (c.i % 8);
    if c.j != c.i {
        s2[c.j / 8] ^= 1 << (c.j % 8);
    }
    let mut a = adapter::from_seed(c.ty, &c.base.bytes);
    let mut b = adapter::from_seed(c.ty, &s2);
    // one step first, so that the difference has moved through the state
    let eq0 = a.eq_dyn(&*b);
    let (x0, y0) = (a.next_native(), b.next_native());
    let eq1 = a.eq_dyn(&*b);
    let mut differs = x0 != y0;
    for _ in 0..6 {
        if a.next_native() != b.next_native() {
            differs = true;
        }
    }
    if (eq0 == Some(true) || eq1 == Some(true)) && differs {
        return Err(Fail::new(format!("C10:eq-future:{}:seed-bit-pair", c.ty.name()), format!("two generators whose seeds differ in bit(s) {} / {} compare equal but return different values", c.i, c.j)));
    }
    Ok(CaseInfo::new(c.i != c.j).class(if c.i == c.j { "1-bit" } else { "2-bit" }).class_if(!differs, "same-first-outputs"))
}

pub fn check_hc_pos(c: &HcPosCase) -> CheckResult {
    let _ = adapter::take_ne_inconsistency();
    let r = check_hc_pos_inner(c);
    if let (Ok(_), Some(t)) = (&r, adapter::take_ne_inconsistency()) {
        return Err(Fail::new(format!("C10:ne-inconsistent:{}", t.rsplit("::").next().unwrap_or(t)), "`a != b` is not the negation of `a == b` for two generators compared in this case"));
    }
    r
}

fn check_hc_pos_inner(c: &HcPosCase) -> CheckResult {
    let mut a = adapter::from_seed(Ty::Hc128, &c.seed.bytes);
    let mut b = adapter::from_seed(Ty::Hc128, &c.seed.bytes);
    for _ in 0..c.block * 16 + c.ca {
        a.next_u32();
    }
    for _ in 0..c.block * 16 + c.cb {
        b.next_u32();
    }
    if c.ca == c.cb {
        return if a.eq_dyn(&*b) == Some(true) { Ok(CaseInfo::new(false).class("same-position")) } else { Err(Fail::new("C10:hc-same-pos-ne", "same seed, same position, but !=")) };
    }
    if a.eq_dyn(&*b) != Some(false) {
        return Err(Fail::new("C10:hc-position", format!("two Hc128Rng at different read positions ({} and {}) of the same block compare equal", c.ca, c.cb)));
    }
    Ok(CaseInfo::new(true).class("different-position-same-block"))
}

// ---- public block cores ----

#[derive(Clone, Debug, Serialize, Deserialize)]
pub struct CoreCase {
    /// 0 = Hc128Core, 1 = IsaacCore, 2 = Isaac64Core
    pub which: u8,
    pub seed: gens::Seed,
    pub blocks_before: usize,
    pub blocks_after: usize,
    /// crafted one-field difference (serde cores only): (field, delta)
    pub craft: Option<(usize, u64)>,
}

pub fn check_core(c: &CoreCase) -> CheckResult {
    macro_rules! go {
        ($Core:ty, $name:expr, $serde:expr) => {{
            let mut seed = [0u8; 32];
            seed.copy_from_slice(&c.seed.bytes);
            let mut a = <$Core>::from_seed(seed);
            let mut ra = <$Core as BlockRngCore>::Results::default();
            for _ in 0..c.blocks_before {
                a.generate(&mut ra);
            }
            let mut b = a.clone();
            if c.blocks_after % 2 == 1 {
                // Clone::clone_from into a core at another position
                let mut t = <$Core>::from_seed(seed);
                let mut rt = <$Core as BlockRngCore>::Results::default();
                for _ in 0..(c.blocks_before + 3) {
                    t.generate(&mut rt);
                }
                t.clone_from(&a);
                b = t;
            }
            let mut crafted = false;
            if let Some((field, delta)) = c.craft {
                if let Some(nb) = $serde(&a, field, delta) {
                    b = nb;
                    crafted = true;
                }
            }
            let eq = a == b;
            #[allow(clippy::nonminimal_bool)]
            let ne = a != b;
            if eq == ne {
                return Err(Fail::new(format!("C10:ne-inconsistent:{}", $name), format!("`a != b` ({}) is not the negation of `a == b` ({}) for two block cores{}", ne, eq, if crafted { " (serde-crafted pair)" } else { "" })));
            }
            if !crafted && !eq {
                return Err(Fail::new(format!("C10:core-clone-ne:{}", $name), "clone of a block core does not compare equal"));
            }
            if eq {
                let mut rb = <$Core as BlockRngCore>::Results::default();
                for k in 0..c.blocks_after {
                    a.generate(&mut ra);
                    b.generate(&mut rb);
                    if ra.as_ref() != rb.as_ref() {
                        return Err(Fail::new(format!("C10:core-eq-future:{}", $name), format!("equal cores generate different blocks (block #{} after comparison{})", k, if crafted { ", serde-crafted pair" } else { "" })));
                    }
                }
                if a != b {
                    return Err(Fail::new(format!("C10:core-eq-not-preserved:{}", $name), "equal cores are unequal after generating the same number of blocks"));
                }
            }
            Ok(CaseInfo::new(c.blocks_before > 0 && c.blocks_after > 0)
                .class($name)
                .class_if(crafted, "crafted")
                .class(if eq { "eq:true" } else { "eq:false" }))
        }};
    }
    fn no_serde<T>(_a: &T, _f: usize, _d: u64) -> Option<T> {
        None
    }
    fn via_serde<T: Serialize + for<'de> Deserialize<'de>>(a: &T, f: usize, d: u64) -> Option<T> {
        let mut v = serde_json::to_value(a).ok()?;
        if !tweak_json(&mut v, f, d) {
            return None;
        }
        serde_json::from_value(v).ok()
    }
    match c.which % 3 {
        0 => go!(rand_hc::Hc128Core, "Hc128Core", no_serde::<rand_hc::Hc128Core>),
        1 => go!(rand_isaac::isaac::IsaacCore, "IsaacCore", via_serde::<rand_isaac::isaac::IsaacCore>),
        _ => go!(rand_isaac::isaac64::Isaac64Core, "Isaac64Core", via_serde::<rand_isaac::isaac64::Isaac64Core>),
    }
}

fn count_numeric_leaves(v: &Value, key: &str) -> usize {
    match v {
        Value::Number(_) if key != "index" => 1,
        Value::Array(a) => a.iter().map(|x| count_numeric_leaves(x, key)).sum(),
        Value::Object(m) => m.iter().map(|(k, x)| count_numeric_leaves(x, k)).sum(),
        _ => 0,
    }
}

pub fn def(ctx: &Ctx) -> PropDef {
    let t = ctx.tier;
    let mut subs: Vec<Box<dyn SubCheck>> = Vec::new();
    for ty in Ty::ALL {
        let info = ty.info();
        let hl = t.pick(16, 40);
        subs.push(PSub::boxed(
            format!("clone/{}", ty.name()),
            t.pick(4000, 400_000),
            move || {
                let lin = proptest::collection::vec(prop_oneof![4 => Just(Op::U32), 2 => Just(Op::U64), 1 => (0usize..=9).prop_map(Op::Fill)], 1..=3);
                (gens::det_spec(ty, true), gens::pre_advance(&info), gens::ops(&info, hl, 600, true), gens::ops(&info, hl, 600, true), proptest::option::weighted(0.35, gens::ops(&info, 6, 300, true)), proptest::option::weighted(0.2, lin))
                    .prop_map(|(spec, pre, hist, cont, into_existing, lineage)| CloneCase { spec, pre, hist, cont, into_existing, lineage })
                    .boxed()
            },
            check_clone,
        ));
        if !info.eq {
            continue;
        }
        subs.push(PSub::boxed(
            format!("eq-pairs/{}", ty.name()),
            t.pick(4000, 400_000),
            move || {
                let mode = prop_oneof![
                    2 => Just(PairMode::Same),
                    3 => Just(PairMode::Rechunk),
                    3 => (0u8..3).prop_map(PairMode::Extra),
                    1 => gens::ops(&info, 6, 64, true).prop_map(PairMode::Independent),
                    3 => (0usize..512).prop_map(PairMode::SeedFlip),
                    3 => (0usize..4096, any::<u64>()).prop_map(|(field, delta)| PairMode::Crafted { field, delta }),
                ];
                (gens::det_spec(ty, true), gens::pre_advance(&info), gens::ops(&info, hl, 300, true), mode, gens::ops(&info, 10, 300, true))
                    .prop_map(|(spec, pre, hist, mode, cont)| PairCase { spec, pre, hist, mode, cont })
                    .boxed()
            },
            check_pair,
        ));
    }
    // every numeric state field of the serde cores, one at a time (a hand-written == that skips
    // one of 259 fields is hit by a random field choice only once in 259 trials)
    subs.push(crate::engine::ESub::boxed(
        "cores-crafted-all-fields",
        2000,
        || {
            let mut v = Vec::new();
            for which in [1u8, 2] {
                let seed = gens::Seed { class: "fixed".into(), bytes: (0..32u8).map(|i| i.wrapping_mul(37).wrapping_add(11)).collect() };
                let n = if which == 1 {
                    count_numeric_leaves(&serde_json::to_value(<rand_isaac::isaac::IsaacCore as SeedableRng>::from_seed([7; 32])).unwrap(), "")
                } else {
                    count_numeric_leaves(&serde_json::to_value(<rand_isaac::isaac64::Isaac64Core as SeedableRng>::from_seed([7; 32])).unwrap(), "")
                };
                for field in 0..n {
                    for (blocks_before, delta) in [(0usize, 1u64), (2, 1 << 17)] {
                        v.push(CoreCase { which, seed: seed.clone(), blocks_before, blocks_after: 2, craft: Some((field, delta)) });
                    }
                }
            }
            v
        },
        check_core,
    ));
    // the same for every Rng type with == and serde: all numeric fields of the image
    for ty in Ty::ALL {
        let info = ty.info();
        if !(info.eq && info.serde) {
            continue;
        }
        subs.push(crate::engine::ESub::boxed(
            format!("crafted-all-fields/{}", ty.name()),
            100,
            move || {
                let g = adapter::seed_from_u64(ty, 12345);
                let n = g.json().map(|j| count_numeric_leaves(&serde_json::from_str(&j).unwrap(), "")).unwrap_or(0);
                (0..n)
                    .flat_map(|field| {
                        [1u64, 1 << 31].into_iter().map(move |delta| PairCase {
                            spec: GenSpec::Det { ty, ctor: Ctor::U64(12345 + field as u64) },
                            pre: 3,
                            hist: vec![Op::U64],
                            mode: PairMode::Crafted { field, delta },
                            cont: vec![Op::U64, Op::U32, Op::Fill(9), Op::U64],
                        })
                    })
                    .collect()
            },
            check_pair,
        ));
    }
    // all 1- and 2-bit seed differences of one base seed: a == b must imply the same future
    // (a hand-written == that cancels two words is only hit by correlated differences)
    for ty in Ty::ALL {
        let info = ty.info();
        if !info.eq {
            continue;
        }
        let nbits = info.seed_len * 8;
        let seed = ctx.seed;
        subs.push(crate::engine::ESub::boxed(
            format!("seed-bit-pairs/{}", ty.name()),
            (nbits * nbits) as u64,
            move || {
                let mut z = crate::engine::mix_seed(seed, &format!("C10/bitpairs/{}", ty.name())) | 1;
                let bytes: Vec<u8> = (0..nbits / 8).map(|_| { z ^= z << 13; z ^= z >> 7; z ^= z << 17; (z >> 24) as u8 }).collect();
                let mut v = Vec::new();
                for i in 0..nbits {
                    for j in i..nbits {
                        v.push(BitPairCase { ty, base: gens::Seed { class: "base".into(), bytes: bytes.clone() }, i, j });
                    }
                }
                v
            },
            check_bit_pair,
        ));
    }
    subs.push(PSub::boxed(
        "hc128-position",
        t.pick(8000, 800_000),
        || (gens::seed_for(Ty::Hc128, true), 0usize..70, 1usize..=16, 1usize..=16).prop_map(|(seed, block, ca, cb)| HcPosCase { seed, block, ca, cb }).boxed(),
        check_hc_pos,
    ));
    subs.push(PSub::boxed(
        "cores",
        t.pick(8000, 600_000),
        || {
            (0u8..3, gens::seed_for(Ty::Isaac, true), prop_oneof![6 => 0usize..=5, 2 => 60usize..=68, 1 => 124usize..=132, 1 => 250usize..=260], 0usize..=4, proptest::option::weighted(0.6, (0usize..1024, any::<u64>())))
                .prop_map(|(which, seed, blocks_before, blocks_after, craft)| CoreCase { which, seed, blocks_before, blocks_after, craft })
                .boxed()
        },
        check_core,
    ));
    if ctx.tier == crate::engine::Tier::Thorough {
        subs.push(crate::props::fuzzsub::FuzzSub::boxed("fz_hist", "C10", 300000, false));
        subs.push(crate::props::fuzzsub::FuzzSub::boxed("fz_hist", "C10", 300000, true));
    }
    PropDef {
        id: "C10",
        rule: "cases: (a) clone: 19 types x constructor x pre-advance (every buffer index) x history (incl. jumps) then clone, == where provided, a generated continuation (incl. jumps) on both, == again; (b) near-equal pairs: same history / re-chunked history consuming the same words / one extra call / unrelated history / seed with one bit flipped / serde image with exactly one numeric state field changed and restored through Deserialize; oracle: if a == b then every continuation value is equal and a == b still holds (nothing asserted when a != b), == symmetric, identically driven generators are ==; (c) Hc128Rng: same seed, different read positions inside one 16-word block must be !=; (d) public cores Hc128Core/IsaacCore/Isaac64Core through BlockRngCore::generate incl. serde-crafted one-field differences; every numeric state field of IsaacCore/Isaac64Core (259 each) and of every Rng type with == and serde is changed once, enumerated. Non-trivial = state not freshly seeded and continuation >= 2 ops (pairs: == available); distinct by hash of the case.".into(),
        explanation: None,
        assumptions: vec!["serde-crafted states avoid the BlockRng index/half_used bookkeeping fields (states no real generator can serialize are outside the property)".into()],
        subs,
    }
}
