//! C13 — test_timer returns Ok(r) only with a usable r >= 1, else a TimerError that holds.

use super::PropDef;
use crate::adapter;
use crate::engine::{catch, panic_signature, CaseInfo, Caught, CheckResult, Ctx, Fail, PSub, SubCheck};
use crate::refmodel::jitter::TimerErr;
use crate::timer::Script;
use proptest::prelude::*;
use serde::{Deserialize, Serialize};

/// how the 300 counted deltas (and the 100 warm-up deltas) are produced
#[derive(Clone, Debug, Serialize, Deserialize)]
pub enum Pattern {
    /// zig-zag around `base` realising a total variation `sum` = d_0 + sum |d_i - d_(i-1)| exactly
    /// (as far as possible): the 299 steps are floor/ceil of (sum - base) / 299
    Target { base: u64, sum: u64 },
    /// repeating list of deltas
    Cycle(Vec<u64>),
    /// pseudo-random deltas in [lo, lo + spread]
    Random { lo: u64, spread: u64, salt: u64 },
}

#[derive(Clone, Debug, Serialize, Deserialize)]
pub enum Inject {
    /// probe reading = 0 (which: false = first reading t, true = second reading t2)
    ZeroReading { probe: usize, second: bool },
    /// delta of the probe is a non-zero multiple of 2^32 (truncated delta = 0)
    Mult32 { probe: usize, k: u64 },
    /// `count` probes (spread from `from` with stride) get a non-positive step: t2 = t - back
    Backwards { from: usize, stride: usize, count: usize, back: u64 },
    /// `count` counted deltas are rounded to multiples of 100
    Mod100 { count: usize },
    /// `count` counted deltas are copies of their predecessor (stuck: first difference 0)
    Stuck { count: usize },
    /// couple the warm-up tail to the first counted probes: mode 0: d[99] = d[100] (the first
    /// counted probe would be stuck if the stuck test were already primed by warm-up probes);
    /// mode 1: d[101] = 2 * d[100] (probe 101 is stuck only against the zero history);
    /// mode 2: both
    LinkWarmup { mode: u8 },
    /// shift the whole time axis so that one inspected reading takes a structured absolute
    /// value (a non-zero multiple of 2^32, 2^63, u64::MAX, 2^32 - 1, 1)
    AbsReading { probe: usize, second: bool, value: u64 },
}

#[derive(Clone, Debug, Serialize, Deserialize)]
pub struct Case {
    pub first: u64,
    pub warm: Pattern,
    pub counted: Pattern,
    pub gap: u64,
    pub injects: Vec<Inject>,
    pub salt: u64,
}

fn xs(z: &mut u64) -> u64 {
    *z ^= *z << 13;
    *z ^= *z >> 7;
    *z ^= *z << 17;
    *z
}

fn deltas(p: &Pattern, n: usize) -> Vec<u64> {
    match p {
        Pattern::Target { base, sum } => {
            let base = (*base).max(1);
            let rest = sum.saturating_sub(base);
            let steps = (n - 1) as u64;
            let (q, rem) = (rest / steps, rest % steps);
            // keep every delta positive: zig-zag up/down around a floor of base
            let mut d = Vec::with_capacity(n);
            let mut cur = base;
            d.push(cur);
            let mut up = true;
            for i in 0..steps {
                let step = q + if i < rem { 1 } else { 0 };
                if up || cur <= step {
                    cur += step;
                    up = false;
                } else {
                    cur -= step;
                    up = true;
                }
                d.push(cur);
            }
            d
        }
        Pattern::Cycle(v) => (0..n).map(|i| v[i % v.len()].max(1)).collect(),
        Pattern::Random { lo, spread, salt } => {
            let mut z = salt | 1;
            (0..n).map(|_| lo.max(&1) + xs(&mut z) % (spread + 1)).collect()
        }
    }
}

/// readings observed by test_timer: index 0, then per probe: t, loop count, loop count, t2
pub fn build_script(c: &Case) -> Script {
    let mut d: Vec<u64> = deltas(&c.warm, 100);
    d.extend(deltas(&c.counted, 300));
    let mut zero_t = vec![false; 400];
    let mut zero_t2 = vec![false; 400];
    for inj in &c.injects {
        match inj {
            Inject::ZeroReading { probe, second } => {
                if *second {
                    zero_t2[probe % 400] = true;
                } else {
                    zero_t[probe % 400] = true;
                }
            }
            Inject::Mult32 { probe, k } => d[probe % 400] = (*k).max(1) << 32,
            Inject::Backwards { from, stride, count, back } => {
                for j in 0..*count {
                    let p = (from + j * stride.max(&1)) % 400;
                    d[p] = (*back as i64).wrapping_neg() as u64;
                }
            }
            Inject::Mod100 { count } => {
                for j in 0..(*count).min(300) {
                    let p = 100 + j;
                    if d[p] < 1 << 40 {
                        d[p] = ((d[p] + 50) / 100).max(1) * 100;
                    }
                }
            }
            Inject::AbsReading { .. } => {}
            Inject::LinkWarmup { mode } => {
                if *mode != 1 && d[100] < 1 << 40 {
                    d[99] = d[100];
                    d[98] = d[100];
                }
                if *mode != 0 && d[100] < 1 << 40 {
                    d[101] = 2 * d[100];
                }
            }
            Inject::Stuck { count } => {
                for j in 0..(*count).min(299) {
                    let p = 399 - j;
                    d[p] = d[p - 1];
                }
                // copies propagate backwards-to-front: recompute so that each is equal to its predecessor
                for p in (400 - (*count).min(299))..400 {
                    d[p] = d[p - 1];
                }
            }
        }
    }
    // time-axis shift for AbsReading: build once with first = 0 to learn the offset
    let mut first = c.first;
    for inj in &c.injects {
        if let Inject::AbsReading { probe, second, value } = inj {
            let mut t = 0u64;
            let mut off = 0u64;
            for i in 0..=(*probe % 400) {
                t = t.wrapping_add(c.gap.max(1));
                off = t;
                t = t.wrapping_add(d[i]);
                if i == *probe % 400 && *second {
                    off = t;
                }
            }
            first = value.wrapping_sub(off);
        }
    }
    let mut z = c.salt | 1;
    let mut r = Vec::with_capacity(1601);
    let mut t = first;
    r.push(t);
    for i in 0..400 {
        t = t.wrapping_add(c.gap.max(1));
        let time = t;
        let time2 = time.wrapping_add(d[i]);
        t = time2;
        r.push(if zero_t[i] { 0 } else { time });
        r.push(xs(&mut z));
        r.push(xs(&mut z));
        r.push(if zero_t2[i] { 0 } else { time2 });
    }
    Script::new(r, c.salt)
}

/// facts over ALL 400 probe positions of the script (independent of any early exit)
#[derive(Clone, Debug, Default)]
pub struct Facts {
    pub zero_reading: bool,
    pub zero_delta: bool,
    pub backwards: u32,
    pub mod100: u32,
    pub stuck: u32,
    pub sum_primed: u64,
    pub sum_unprimed: u64,
}

pub fn facts(s: &Script) -> Facts {
    let mut f = Facts::default();
    let (mut ld, mut ld2) = (0u32, 0u32);
    let mut old = 0u32;
    for i in 0..400 {
        let (t, t2) = (s.at(1 + 4 * i), s.at(4 + 4 * i));
        if t == 0 || t2 == 0 {
            f.zero_reading = true;
        }
        let delta = t2.wrapping_sub(t) as u32;
        if delta == 0 {
            f.zero_delta = true;
        }
        if i < 100 {
            continue;
        }
        let d2 = ld.wrapping_sub(delta);
        let d3 = d2.wrapping_sub(ld2);
        ld = delta;
        ld2 = d2;
        if delta == 0 || d2 == 0 || d3 == 0 {
            f.stuck += 1;
        }
        if t2 <= t {
            f.backwards += 1;
        }
        if (delta as i32) % 100 == 0 {
            f.mod100 += 1;
        }
        let var = (delta.wrapping_sub(old) as i32).unsigned_abs() as u64;
        f.sum_primed += var;
        if i > 100 {
            f.sum_unprimed += var;
        }
        old = delta;
    }
    f
}

fn bitlen(x: u64) -> u64 {
    64 - x.leading_zeros() as u64
}

/// failure conditions that hold, under one reading of `mean`
fn holding(f: &Facts, mean: u64) -> Vec<TimerErr> {
    let mut h = Vec::new();
    if f.zero_reading {
        h.push(TimerErr::NoTimer);
    }
    if f.zero_delta || f.mod100 > 270 {
        h.push(TimerErr::CoarseTimer);
    }
    if f.backwards > 3 {
        h.push(TimerErr::NotMonotonic);
    }
    if mean < 2 {
        h.push(TimerErr::TinyVariations);
    }
    if f.stuck > 270 {
        h.push(TimerErr::TooManyStuck);
    }
    h
}

pub fn check(c: &Case) -> CheckResult {
    let script = build_script(c);
    let f = facts(&script);
    let means = [f.sum_primed / 300, f.sum_unprimed / 300];
    let mut g = adapter::jitter_gen(script, None, 2_000_000);
    let out = match catch(|| g.jitter().unwrap().test_timer()) {
        Caught::Ok(o) => o,
        Caught::Panic(rec) => return Err(Fail::new(panic_signature(&rec), format!("test_timer panicked: {}", rec))),
        Caught::Budget => return Err(Fail::new("C13:does-not-return", "test_timer read the timer more than 2,000,000 times (400 probes need 1601 readings)")),
    };
    let desc = format!("zero_reading={} zero_delta={} backwards={} mod100={} stuck={} sum|delta changes|={} (without priming term {}), mean={} ({})",
        f.zero_reading, f.zero_delta, f.backwards, f.mod100, f.stuck, f.sum_primed, f.sum_unprimed, means[0], means[1]);
    match out {
        Ok(r) => {
            // accepted iff under one of the two readings of `mean` no failure condition holds and
            // 1 <= r <= 128 and r * bitlen(mean) >= 128
            let ok = means.iter().any(|&m| holding(&f, m).is_empty() && (1..=128).contains(&(r as u64)) && (r as u64) * bitlen(m) >= 128);
            if !ok {
                let h = holding(&f, means[0]);
                let sig = if r == 0 { "C13:ok-zero-rounds".to_string() } else if !h.is_empty() { format!("C13:ok-despite:{:?}", h[0]) } else { "C13:ok-too-few-rounds".to_string() };
                return Err(Fail::new(sig, format!("test_timer returned Ok({}) but: {}", r, desc)).exp_act(
                    if h.is_empty() { format!("Ok(r) with 1 <= r <= 128 and r*bitlen(mean) >= 128 (bitlen = {})", bitlen(means[0])) } else { format!("Err(one of {:?})", h) },
                    format!("Ok({})", r)));
            }
            // the documented idiom must not trip the assertion
            if r > 0 {
                if let Caught::Panic(rec) = catch(|| g.jitter().unwrap().set_rounds(r)) {
                    return Err(Fail::new(panic_signature(&rec), format!("set_rounds(test_timer()?) panicked: {}", rec)));
                }
            }
        }
        Err(e) => {
            let ok = means.iter().any(|&m| holding(&f, m).contains(&e));
            if !ok {
                let h = holding(&f, means[0]);
                return Err(Fail::new(format!("C13:wrong-error:{:?}", e), format!("test_timer returned Err({:?}) but that condition does not hold: {}", e, desc)).exp_act(
                    if h.is_empty() { "Ok(r)".to_string() } else { format!("Err(one of {:?})", h) }, format!("Err({:?})", e)));
            }
        }
    }
    let m = means[0];
    let near_mean = m <= 3 || (14..=17).contains(&m) || (m + 1).is_power_of_two() || m.is_power_of_two() || (m - 1).is_power_of_two();
    let near_count = [3u32, 4].contains(&f.backwards) || (269..=272).contains(&f.mod100) || (269..=272).contains(&f.stuck);
    let nh = holding(&f, m).len();
    Ok(CaseInfo::new(near_mean || near_count || nh >= 2)
        .class(match &out {
            Ok(_) => "Ok".to_string(),
            Err(e) => format!("Err:{:?}", e),
        })
        .class_if(near_mean, "mean-at-boundary")
        .class_if(near_count, "count-at-boundary")
        .class_if(nh >= 2, "two-conditions")
        .class_if(m == 1, "mean=1")
        .class(match m {
            0 => "mean:0",
            1 => "mean:1",
            2..=15 => "mean:2-15",
            16..=255 => "mean:16-255",
            _ => "mean:>=256",
        }))
}

pub fn pattern_target() -> BoxedStrategy<Pattern> {
    // total variation aimed at every table / log2 boundary: 300*M + e
    let m = prop_oneof![
        6 => 0u64..=40,
        4 => (4u32..=30, -1i64..=1).prop_map(|(k, e)| ((1i64 << k) + e) as u64),
    ];
    let e = prop_oneof![Just(0u64), Just(1), Just(150), Just(299), Just(298)];
    let base = prop_oneof![4 => 1u64..=50, 1 => Just(101u64), 1 => Just(1000u64), 1 => Just(65537u64)];
    (m, e, base, any::<bool>())
        .prop_map(|(m, e, base, minus)| {
            let sum = if minus { (300 * m).saturating_sub(e.min(1)) } else { 300 * m + e };
            Pattern::Target { base: base.min(sum.max(1)), sum }
        })
        .boxed()
}

pub fn pattern() -> BoxedStrategy<Pattern> {
    prop_oneof![
        6 => pattern_target(),
        2 => proptest::collection::vec(1u64..=60, 1..=6).prop_map(Pattern::Cycle),
        1 => proptest::collection::vec(prop_oneof![1u64..=20, 90u64..=110, 1000u64..=1200], 2..=5).prop_map(Pattern::Cycle),
        2 => (1u64..=5000, 0u64..=3000, any::<u64>()).prop_map(|(lo, spread, salt)| Pattern::Random { lo, spread, salt }),
    ]
    .boxed()
}

pub fn inject() -> BoxedStrategy<Inject> {
    prop_oneof![
        2 => (0usize..400, any::<bool>()).prop_map(|(probe, second)| Inject::ZeroReading { probe, second }),
        2 => (0usize..400, 1u64..4).prop_map(|(probe, k)| Inject::Mult32 { probe, k }),
        5 => (0usize..400, 1usize..=40, 0usize..=8, prop_oneof![3 => 0u64..=50, 2 => (1u64..=9).prop_map(|k| k * 100), 1 => (1u64..=9).prop_map(|k| k * 100 - 4), 1 => 51u64..=5000])
            .prop_map(|(from, stride, count, back)| Inject::Backwards { from, stride, count, back }),
        2 => (0usize..400, any::<bool>(), prop_oneof![3 => (1u64..1000).prop_map(|k| k << 32), 1 => Just(1u64 << 63), 1 => Just(u64::MAX), 1 => Just(0xffff_ffffu64), 1 => Just(1u64)])
            .prop_map(|(probe, second, value)| Inject::AbsReading { probe, second, value }),
        4 => prop_oneof![0usize..=300, 268usize..=273].prop_map(|count| Inject::Mod100 { count }),
        4 => prop_oneof![0usize..=299, 266usize..=274].prop_map(|count| Inject::Stuck { count }),
        1 => (0u8..3).prop_map(|mode| Inject::LinkWarmup { mode }),
    ]
    .boxed()
}

pub fn strategy() -> BoxedStrategy<Case> {
    let first = prop_oneof![4 => 1u64..=1_000_000_000_000, 1 => Just(1u64), 1 => (0u64..1_000_000).prop_map(|k| u64::MAX - k), 1 => (0u64..1_000_000).prop_map(|k| (1u64 << 32) - k)];
    // thresholds at their exact boundary together with a coupling of warm-up and counted probes
    let boundary = (268usize..=273, 0u8..3, any::<bool>()).prop_map(|(count, mode, stuck)| {
        vec![if stuck { Inject::Stuck { count } } else { Inject::Mod100 { count } }, Inject::LinkWarmup { mode }]
    });
    // two counters near their thresholds at once: tolerated backward probes whose (negative)
    // delta is itself a multiple of 100, with the multiple-of-100 count around 270
    let two = (266usize..=272, 1usize..=3, 1u64..=9, 100usize..390).prop_map(|(count, nback, k, from)| {
        vec![Inject::Mod100 { count }, Inject::Backwards { from, stride: 3, count: nback, back: k * 100 }]
    });
    let inj = prop_oneof![5 => Just(Vec::new()), 4 => proptest::collection::vec(inject(), 1..=1), 2 => proptest::collection::vec(inject(), 2..=3), 2 => boundary, 1 => two];
    (first, pattern(), pattern(), 1u64..=5000, inj, any::<u64>()).prop_map(|(first, warm, counted, gap, injects, salt)| Case { first, warm, counted, gap, injects, salt }).boxed()
}

pub fn def(ctx: &Ctx) -> PropDef {
    let t = ctx.tier;
    let mut subs: Vec<Box<dyn SubCheck>> = Vec::new();
    for part in 0..16 {
        subs.push(PSub::boxed(format!("timers/{}", part), t.pick(1500, 150_000), strategy, check));
    }
    if ctx.tier == crate::engine::Tier::Thorough {
        subs.push(crate::props::fuzzsub::FuzzSub::boxed("fz_timer", "C13", 150000, false));
        subs.push(crate::props::fuzzsub::FuzzSub::boxed("fz_timer", "C13", 150000, true));
    }
    PropDef {
        id: "C13",
        rule: "cases = constructive 400-probe timers: first reading, warm-up and counted delta patterns (zig-zag realising a target total variation 300*M+e for every M in 0..40 and 2^k-1, 2^k, 2^k+1 (k=4..30) with small and large first delta; repeating cycles; random ranges), gaps, arbitrary loop-count readings, and injected failure classes with counts around their thresholds (a zero reading in a probe; a delta = 0 mod 2^32; 0..8 non-increasing probes; 0..300 / 268..273 multiples of 100; 0..299 / 266..274 stuck probes), alone and combined. Oracle = validity predicate from the statement over all 400 probe positions: Ok(r) only if no failure condition holds, 1 <= r <= 128, r*bitlen(mean) >= 128, and set_rounds(r) does not panic; Err(e) only if e names a condition that holds (mean taken with or without the priming term |d_0 - 0|: an outcome consistent under either reading is accepted). Non-trivial = mean within +-1 of a decision boundary (0..3, 15/16, 2^k), a count at 3/4 or 269..272, or two conditions at once; distinct by hash of the case.".into(),
        explanation: None,
        assumptions: vec!["'a zero reading' means a reading the procedure inspects (the two time stamps of a probe); zeros are injected only there".into(), "deltas stay below 2^30 in magnitude except the injected 2^32 multiples, so wrapped and exact absolute differences coincide".into()],
        subs,
    }
}
