//! C19 — generators share no hidden state: results are independent of other instances.

use super::PropDef;
use crate::adapter::{Gen, Ty};
use crate::engine::{CaseInfo, CheckResult, Ctx, Fail, PSub, SubCheck, SubResult, Violation};
use crate::gens::{self, GenSpec, Op};
use crate::ops::{apply, fmt_val};
use crate::props::c12::JOp;
use proptest::prelude::*;
use serde::{Deserialize, Serialize};
use serde_json::{json, Value};
use std::process::Command;
use std::sync::mpsc;

/// The static probe (all generator types are Send + Sync) is decided by the compiler before any
/// dynamic scenario runs; only then are generators moved between threads.
struct SendBox(Box<dyn Gen>);
// SAFETY: used only after the sendsync_probe crate has compiled, i.e. every wrapped generator
// type is Send; at any time exactly one thread owns and uses the box.
unsafe impl Send for SendBox {}

#[derive(Clone, Debug, Serialize, Deserialize)]
pub struct Instance {
    pub spec: GenSpec,
    pub ops: Vec<Op>,
    /// JitterRng only: a history over its whole public API (timer_stats, set_rounds, test_timer
    /// as well as the output calls); replaces `ops` when not empty
    #[serde(default)]
    pub jops: Vec<JOp>,
}

impl Instance {
    pub fn n_ops(&self) -> usize {
        if self.jops.is_empty() {
            self.ops.len()
        } else {
            self.jops.len()
        }
    }
    /// run operation #k and describe everything the caller can observe of it
    /// a panic inside the operation (C14's subject, or an exhausted timer budget) becomes part
    /// of the trace instead of killing the thread that runs it: a scenario never hangs on it, and
    /// solo and interleaved runs stay comparable
    pub fn step(&self, g: &mut dyn Gen, k: usize) -> String {
        match std::panic::catch_unwind(std::panic::AssertUnwindSafe(|| self.step_inner(g, k))) {
            Ok(v) => v,
            Err(p) => {
                let rec = crate::engine::take_last_panic().unwrap_or_default();
                if p.downcast_ref::<crate::timer::TimerBudget>().is_some() {
                    "<timer budget exhausted>".to_string()
                } else {
                    format!("<panic: {}>", crate::engine::panic_signature(&rec))
                }
            }
        }
    }
    fn step_inner(&self, g: &mut dyn Gen, k: usize) -> String {
        if self.jops.is_empty() {
            return apply(g, &self.ops[k]).map(|v| fmt_val(&v)).unwrap_or_default();
        }
        let text = match &self.jops[k] {
            JOp::U32 => format!("u32 {:#010x}", g.next_u32()),
            JOp::U64 => format!("u64 {:#018x}", g.next_u64()),
            JOp::Fill(n) => format!("bytes {}", crate::hexser::hex(&crate::ops::fill_unaligned(g, *n))),
            JOp::Stats(v) => format!("timer_stats {}", g.jitter().map(|j| j.timer_stats(*v)).unwrap_or(0)),
            JOp::Rounds(r) => {
                if let Some(j) = g.jitter() {
                    j.set_rounds((*r).max(1));
                }
                "set_rounds".to_string()
            }
            JOp::TestTimer => format!("test_timer {:?}", g.jitter().map(|j| j.test_timer())),
            JOp::Clone => String::new(),
        };
        // the number of timer readings consumed is observable by the owner of the timer
        format!("{} @{}", text, g.jitter().map(|j| j.reads()).unwrap_or(0))
    }
    /// construct the instance; a constructor that panics (C14's subject) must not kill the thread
    /// that runs the scenario: the same stand-in generator is used wherever this happens, so solo
    /// and interleaved runs stay comparable
    pub fn build_safe(&self) -> Box<dyn Gen> {
        match std::panic::catch_unwind(std::panic::AssertUnwindSafe(|| self.spec.build())) {
            Ok(g) => g,
            Err(_) => {
                let _ = crate::engine::take_last_panic();
                match &self.spec {
                    GenSpec::Det { ty, .. } => crate::adapter::from_seed(*ty, &vec![0x55u8; ty.info().seed_len]),
                    GenSpec::Jitter { .. } => crate::adapter::jitter_gen(crate::timer::Script::new(vec![1_000], 7), Some(1), crate::ops::JITTER_BUDGET),
                }
            }
        }
    }
    fn trace(&self, g: &mut dyn Gen) -> Vec<String> {
        (0..self.n_ops()).map(|k| self.step(g, k)).collect()
    }
}

#[derive(Clone, Debug, Serialize, Deserialize)]
pub struct Scenario {
    pub instances: Vec<Instance>,
    /// (instance selector, worker selector) — which instance advances next, on which thread
    pub schedule: Vec<(usize, usize)>,
    pub workers: usize,
}

#[derive(Clone, Debug, Serialize, Deserialize)]
pub struct FreeCase {
    pub instances: Vec<Instance>,
    pub workers: usize,
    pub repeats: usize,
}

fn solo_here(inst: &Instance) -> Vec<String> {
    let mut g = inst.build_safe();
    inst.trace(&mut *g)
}

/// solo replays of all instances, one after the other, in one fresh thread
fn solo_all(insts: &[Instance]) -> Vec<Vec<String>> {
    let insts = insts.to_vec();
    std::thread::spawn(move || insts.iter().map(solo_here).collect::<Vec<_>>()).join().unwrap_or_default()
}

/// solo trace of one instance computed in a fresh child process (`vcheck --solo-trace`): state
/// that lives for the whole process (lazily initialised statics, caches) cannot carry over
pub fn solo_fresh_process(inst: &Instance) -> Result<Vec<String>, String> {
    use std::io::Write;
    let exe = std::env::current_exe().map_err(|e| e.to_string())?;
    let mut child = Command::new(exe).arg("--solo-trace").stdin(std::process::Stdio::piped()).stdout(std::process::Stdio::piped()).stderr(std::process::Stdio::null()).spawn().map_err(|e| e.to_string())?;
    child.stdin.take().unwrap().write_all(serde_json::to_string(inst).unwrap().as_bytes()).map_err(|e| e.to_string())?;
    let out = child.wait_with_output().map_err(|e| e.to_string())?;
    if !out.status.success() {
        return Err(format!("child exited with {:?}", out.status));
    }
    serde_json::from_slice(&out.stdout).map_err(|e| e.to_string())
}

/// traces of a whole scenario (instances constructed in order, then advanced round-robin) run in
/// ONE fresh child process: the scenario's own construction order decides the order in which
/// anything process-wide gets initialised
pub fn scenario_fresh_process(insts: &[Instance]) -> Result<Vec<Vec<String>>, String> {
    use std::io::Write;
    let exe = std::env::current_exe().map_err(|e| e.to_string())?;
    let mut child = Command::new(exe).arg("--scenario-trace").stdin(std::process::Stdio::piped()).stdout(std::process::Stdio::piped()).stderr(std::process::Stdio::null()).spawn().map_err(|e| e.to_string())?;
    child.stdin.take().unwrap().write_all(serde_json::to_string(insts).unwrap().as_bytes()).map_err(|e| e.to_string())?;
    let out = child.wait_with_output().map_err(|e| e.to_string())?;
    if !out.status.success() {
        return Err(format!("child exited with {:?}", out.status));
    }
    serde_json::from_slice(&out.stdout).map_err(|e| e.to_string())
}

fn round_robin(insts: &[Instance]) -> Vec<Vec<String>> {
    let k = insts.len();
    let mut gens: Vec<Box<dyn Gen>> = insts.iter().map(|i| i.build_safe()).collect();
    let mut traces: Vec<Vec<String>> = vec![Vec::new(); k];
    let longest = insts.iter().map(|i| i.n_ops()).max().unwrap_or(0);
    for step in 0..longest {
        for i in 0..k {
            if step < insts[i].n_ops() {
                traces[i].push(insts[i].step(&mut *gens[i], step));
            }
        }
    }
    traces
}

pub fn scenario_trace_main() {
    let mut text = String::new();
    use std::io::Read;
    std::io::stdin().read_to_string(&mut text).expect("stdin");
    let insts: Vec<Instance> = serde_json::from_str(&text).expect("scenario json");
    println!("{}", serde_json::to_string(&round_robin(&insts)).unwrap());
}

/// entry point of the child process
pub fn solo_trace_main() {
    let mut text = String::new();
    use std::io::Read;
    std::io::stdin().read_to_string(&mut text).expect("stdin");
    let inst: Instance = serde_json::from_str(&text).expect("instance json");
    let mut g = inst.build_safe();
    let tr: Vec<String> = inst.trace(&mut *g);
    println!("{}", serde_json::to_string(&tr).unwrap());
}

/// all instances constructed and advanced round-robin in this (long-lived, shared) process must
/// produce the traces that each produces alone in a fresh process
pub fn check_fresh(c: &FreeCase) -> CheckResult {
    let k = c.instances.len();
    // workers == 1: the scenario runs inside this long-lived checker process; otherwise in a
    // fresh child process of its own
    let traces = if c.workers == 1 { round_robin(&c.instances) } else { scenario_fresh_process(&c.instances).map_err(|e| Fail::inconclusive("C19:child-process", e))? };
    for i in 0..k {
        let want = solo_fresh_process(&c.instances[i]).map_err(|e| Fail::inconclusive("C19:child-process", e))?;
        if want != traces[i] {
            let p = traces[i].iter().zip(want.iter()).position(|(a, b)| a != b).unwrap_or(0);
            return Err(Fail::new(format!("C19:depends-on-process-history:{}", c.instances[i].spec.ty().name()), format!("instance {} ({}): value of op #{} in a process where other generators were created and used before differs from the same instance run alone in a fresh process (process-wide hidden state)", i, c.instances[i].spec.ty().name(), p))
                .exp_act(want.get(p), traces[i].get(p)));
        }
    }
    Ok(CaseInfo::new(k >= 2).class(format!("instances:{}", k.min(8))).class(if c.workers == 1 { "scenario-in-checker-process" } else { "scenario-in-fresh-process" }).class_if(c.instances.iter().filter(|i| i.jops.contains(&JOp::TestTimer)).count() >= 2, "test_timer-on-two-instances").class_if(c.instances.iter().any(|i| matches!(&i.spec, GenSpec::Det { ctor: crate::ops::Ctor::Seed(s), .. } if s.is_zero())), "has-zero-seed"))
}

enum Job {
    Step(usize, Option<SendBox>, Instance, usize),
    Stop,
}

pub fn check_scenario(c: &Scenario) -> CheckResult {
    let k = c.instances.len();
    if k == 0 {
        return Ok(CaseInfo::new(false));
    }
    let before: Vec<Vec<String>> = solo_all(&c.instances);
    let m = c.workers.clamp(1, 4);
    // workers
    let (res_tx, res_rx) = mpsc::channel::<(usize, SendBox, String)>();
    let mut job_txs = Vec::new();
    let mut handles = Vec::new();
    for _ in 0..m {
        let (tx, rx) = mpsc::channel::<Job>();
        let res_tx = res_tx.clone();
        job_txs.push(tx);
        handles.push(std::thread::spawn(move || {
            while let Ok(job) = rx.recv() {
                match job {
                    Job::Stop => break,
                    Job::Step(i, g, inst, kth) => {
                        // construction is part of the history: built on the thread of its first op
                        let mut g = g.unwrap_or_else(|| SendBox(inst.build_safe()));
                        let v = inst.step(&mut *g.0, kth);
                        if res_tx.send((i, g, v)).is_err() {
                            break;
                        }
                    }
                }
            }
        }));
    }
    let mut gens: Vec<Option<SendBox>> = (0..k).map(|_| None).collect();
    let mut built = vec![false; k];
    let mut pos = vec![0usize; k];
    let mut traces: Vec<Vec<String>> = vec![Vec::new(); k];
    let mut last_worker = vec![usize::MAX; k];
    let mut migrations = 0usize;
    let mut alternations = 0usize;
    let mut last_inst = usize::MAX;
    let mut run_step = |i: usize, w: usize, gens: &mut Vec<Option<SendBox>>, built: &mut Vec<bool>, pos: &mut Vec<usize>, traces: &mut Vec<Vec<String>>| -> Result<(), Fail> {
        let g = if built[i] { gens[i].take() } else { None };
        job_txs[w].send(Job::Step(i, g, c.instances[i].clone(), pos[i])).map_err(|_| Fail::inconclusive("C19:worker", "worker thread died"))?;
        // never wait forever for a worker (a dead worker cannot answer)
        let (ri, g, v) = res_rx.recv_timeout(std::time::Duration::from_secs(120)).map_err(|_| Fail::inconclusive("C19:worker", "worker thread did not answer within 120 s (died in an operation?)"))?;
        gens[ri] = Some(g);
        built[ri] = true;
        traces[ri].push(v);
        pos[ri] += 1;
        Ok(())
    };
    let mut result = Ok(());
    for &(si, sw) in &c.schedule {
        // next instance that still has ops, starting from the selected one
        let Some(i) = (0..k).map(|d| (si + d) % k).find(|&i| pos[i] < c.instances[i].n_ops()) else { break };
        let w = sw % m;
        if last_worker[i] != usize::MAX && last_worker[i] != w {
            migrations += 1;
        }
        last_worker[i] = w;
        if last_inst != usize::MAX && last_inst != i && c.instances[last_inst].spec.ty() == c.instances[i].spec.ty() {
            alternations += 1;
        }
        last_inst = i;
        if let Err(e) = run_step(i, w, &mut gens, &mut built, &mut pos, &mut traces) {
            result = Err(e);
            break;
        }
    }
    // drain the remaining ops round-robin on worker 0.. so that every trace is complete
    if result.is_ok() {
        'outer: loop {
            let mut any = false;
            for i in 0..k {
                if pos[i] < c.instances[i].n_ops() {
                    any = true;
                    if let Err(e) = run_step(i, i % m, &mut gens, &mut built, &mut pos, &mut traces) {
                        result = Err(e);
                        break 'outer;
                    }
                }
            }
            if !any {
                break;
            }
        }
    }
    for tx in &job_txs {
        let _ = tx.send(Job::Stop);
    }
    drop(gens);
    for h in handles {
        let _ = h.join();
    }
    result?;
    let after: Vec<Vec<String>> = solo_all(&c.instances);
    for i in 0..k {
        if before[i] != after[i] {
            return Err(Fail::new(format!("C19:solo-changed:{}", c.instances[i].spec.ty().name()), format!("instance {}: the solo replay after the interleaved run differs from the solo replay before it (hidden state survived)", i)));
        }
        if traces[i] != before[i] {
            let p = traces[i].iter().zip(before[i].iter()).position(|(a, b)| a != b).unwrap_or(0);
            return Err(Fail::new(format!("C19:depends-on-others:{}", c.instances[i].spec.ty().name()), format!("instance {} ({}): value of op #{} differs between the interleaved run and its solo run", i, c.instances[i].spec.ty().name(), p))
                .exp_act(before[i].get(p), traces[i].get(p)));
        }
    }
    let same_type_pair = (0..k).any(|i| (i + 1..k).any(|j| c.instances[i].spec.ty() == c.instances[j].spec.ty()));
    Ok(CaseInfo::new(same_type_pair && alternations >= 1 && migrations >= 1)
        .class(format!("instances:{}", k))
        .class(format!("workers:{}", m))
        .class_if(migrations > 0, "thread-migration")
        .class_if(alternations > 0, "same-type-alternation")
        .class_if((0..k).any(|i| (i + 1..k).any(|j| c.instances[i].spec == c.instances[j].spec)), "identical-specs"))
}

/// free-running: instances partitioned over the workers, no coordination
pub fn check_free(c: &FreeCase) -> CheckResult {
    let k = c.instances.len();
    let m = c.workers.clamp(1, 8);
    let want: Vec<Vec<String>> = solo_all(&c.instances);
    for rep in 0..c.repeats.max(1) {
        let barrier = std::sync::Arc::new(std::sync::Barrier::new(m));
        let mut hs = Vec::new();
        for w in 0..m {
            let mine: Vec<(usize, Instance)> = c.instances.iter().cloned().enumerate().filter(|(i, _)| i % m == w).collect();
            let barrier = barrier.clone();
            hs.push(std::thread::spawn(move || {
                barrier.wait();
                let mut gens: Vec<Box<dyn Gen>> = mine.iter().map(|(_, inst)| inst.build_safe()).collect();
                let mut traces: Vec<Vec<String>> = vec![Vec::new(); mine.len()];
                let longest = mine.iter().map(|(_, i)| i.n_ops()).max().unwrap_or(0);
                for step in 0..longest {
                    for (j, (_, inst)) in mine.iter().enumerate() {
                        if step < inst.n_ops() {
                            traces[j].push(inst.step(&mut *gens[j], step));
                        }
                    }
                }
                mine.iter().map(|(i, _)| *i).zip(traces).collect::<Vec<_>>()
            }));
        }
        for h in hs {
            let got = h.join().map_err(|_| Fail::new("C19:panic-in-thread", "an operation panicked in a worker thread"))?;
            for (i, tr) in got {
                if tr != want[i] {
                    let p = tr.iter().zip(want[i].iter()).position(|(a, b)| a != b).unwrap_or(0);
                    return Err(Fail::new(format!("C19:parallel-depends-on-others:{}", c.instances[i].spec.ty().name()), format!("instance {}: value of op #{} in unsynchronised parallel run #{} differs from its solo run", i, p, rep)).exp_act(want[i].get(p), tr.get(p)));
                }
            }
        }
    }
    Ok(CaseInfo::new(k >= 2 && m >= 2).class(format!("workers:{}", m)))
}

/// first outputs of a freshly constructed generator; a panic in the constructor or in an output
/// call (C14's subject) is part of the observable behaviour that is compared, not a C19 finding
fn obs(f: impl FnOnce() -> Box<dyn Gen>) -> Result<[u64; 3], String> {
    match std::panic::catch_unwind(std::panic::AssertUnwindSafe(|| {
        let mut g = f();
        [g.next_native(), g.next_native(), g.next_native()]
    })) {
        Ok(v) => Ok(v),
        Err(_) => Err(format!("<panic: {}>", crate::engine::panic_signature(&crate::engine::take_last_panic().unwrap_or_default()))),
    }
}

/// Seeds that differ in exactly one or two bits, constructed back to back: a generator built
/// right after a near-identical one must be the generator it is when built after an unrelated
/// one. (Any process-wide cache keyed on a lossy *linear* digest of the seed collides on some
/// difference of minimal weight; all 1- and 2-bit differences of one base seed are enumerated.)
#[derive(Clone, Debug, Serialize, Deserialize)]
pub struct SeedPairCase {
    pub ty: Ty,
    pub base: gens::Seed,
    pub i: usize,
    pub j: usize,
}

pub fn check_seed_pair(c: &SeedPairCase) -> CheckResult {
    let mut s2 = c.base.bytes.clone();
    s2[c.i / 8] ^= 1 << (c.i % 8);
    if c.j != c.i {
        s2[c.j / 8] ^= 1 << (c.j % 8);
    }
    let unrelated: Vec<u8> = c.base.bytes.iter().map(|b| !b ^ 0x5a).collect();
    // references: each seed's generator built right after an unrelated one
    let _u = obs(|| crate::adapter::from_seed(c.ty, &unrelated));
    let want_a = obs(|| crate::adapter::from_seed(c.ty, &c.base.bytes));
    let _u2 = obs(|| crate::adapter::from_seed(c.ty, &unrelated));
    let want_b = obs(|| crate::adapter::from_seed(c.ty, &s2));
    // back to back in both orders: a after (the reference instance of) b, b after a, a after b
    let got_a1 = obs(|| crate::adapter::from_seed(c.ty, &c.base.bytes));
    let got_b = obs(|| crate::adapter::from_seed(c.ty, &s2));
    let got_a2 = obs(|| crate::adapter::from_seed(c.ty, &c.base.bytes));
    for (what, want, got) in [("the base seed, built after the near-identical one", want_a.clone(), got_a1), ("the near-identical seed, built after the base one", want_b, got_b), ("the base seed, built again", want_a, got_a2)] {
        if got != want {
            return Err(Fail::new(format!("C19:depends-on-previous-instance:{}", c.ty.name()), format!("two seeds differing only in bit(s) {} / {}: the generator of {} returns other values than when built after an unrelated generator", c.i, c.j, what)).exp_act(format!("{:x?}", want), format!("{:x?}", got)));
        }
    }
    Ok(CaseInfo::new(c.i != c.j).class(if c.i == c.j { "1-bit" } else { "2-bit" }))
}

/// The same key material handed to two *different* constructors, back to back: from_seed(s),
/// seed_from_u64(x) and from_rng(source delivering s) with s = x in little-endian bytes followed
/// by `tail` (mostly zeros). Anything process-wide keyed on the key material but not on the route
/// confuses exactly these.
#[derive(Clone, Debug, Serialize, Deserialize)]
pub struct CtorPairCase {
    pub ty: Ty,
    pub x: u64,
    #[serde(with = "crate::hexser")]
    pub tail: Vec<u8>,
    /// constructor routes 0 = from_seed, 1 = seed_from_u64, 2 = from_rng
    pub first: u8,
    pub second: u8,
}

pub fn check_ctor_pair(c: &CtorPairCase) -> CheckResult {
    let len = c.ty.info().seed_len;
    let mut seed = c.x.to_le_bytes().to_vec();
    seed.extend_from_slice(&c.tail);
    seed.resize(len, 0);
    let build = |route: u8, seed: &[u8], x: u64| -> Box<dyn Gen> {
        match route % 3 {
            0 => crate::adapter::from_seed(c.ty, seed),
            1 => crate::adapter::seed_from_u64(c.ty, x),
            _ => crate::adapter::from_rng(c.ty, &mut crate::src::ByteSrc::new(crate::src::SrcSpec { prefix: seed.to_vec(), salt: 1, words_differ: false, call_block: 0 })),
        }
    };
    let unrelated: Vec<u8> = seed.iter().map(|b| !b ^ 0x5a).collect();
    let ux = !c.x ^ 0x5a5a_5a5a;
    // references: each route's generator built right after an unrelated one of the same route
    let _u = obs(|| build(c.first, &unrelated, ux));
    let _u1 = obs(|| build(c.second, &unrelated, ux));
    let want_a = obs(|| build(c.first, &seed, c.x));
    let _u2 = obs(|| build(c.first, &unrelated, ux));
    let _u3 = obs(|| build(c.second, &unrelated, ux));
    let want_b = obs(|| build(c.second, &seed, c.x));
    let _u4 = obs(|| build(c.second, &unrelated, ux));
    // back to back: a, then b, then a again
    let got_a1 = obs(|| build(c.first, &seed, c.x));
    let got_b = obs(|| build(c.second, &seed, c.x));
    let got_a2 = obs(|| build(c.first, &seed, c.x));
    let names = ["from_seed", "seed_from_u64", "from_rng"];
    for (what, want, got) in [("first route, built after an unrelated instance", want_a.clone(), got_a1), ("second route, built right after the first", want_b, got_b), ("first route, built right after the second", want_a, got_a2)] {
        if got != want {
            return Err(Fail::new(format!("C19:depends-on-previous-instance:{}", c.ty.name()), format!("the same key material given to {} and then to {}: the generator of the {} returns other values than when built after unrelated generators", names[(c.first % 3) as usize], names[(c.second % 3) as usize], what)).exp_act(format!("{:x?}", want), format!("{:x?}", got)));
        }
    }
    Ok(CaseInfo::new(c.first % 3 != c.second % 3).class(format!("{}-then-{}", names[(c.first % 3) as usize], names[(c.second % 3) as usize])).class_if(c.tail.iter().all(|&b| b == 0), "zero-padded-64-bit-key").class_if(c.x == 0, "zero-key"))
}

/// the same 64-bit value / the same leading seed bytes handed to the same constructor route of
/// two *different* generator types, back to back (a shared helper that remembers its last
/// expansion regardless of the requested length or type confuses exactly these)
#[derive(Clone, Debug, Serialize, Deserialize)]
pub struct CrossTypeCase {
    pub a: Ty,
    pub b: Ty,
    pub x: u64,
    /// 0 = seed_from_u64(x) for both, 1 = from_seed(bytes keyed on x, cut to each type's length)
    pub route: u8,
}

pub fn check_cross_type(c: &CrossTypeCase) -> CheckResult {
    let seed_for = |ty: Ty, x: u64| -> Vec<u8> {
        let mut z = x;
        (0..ty.info().seed_len)
            .map(|i| {
                if i < 8 {
                    x.to_le_bytes()[i]
                } else {
                    z = z.wrapping_mul(0x5851f42d4c957f2d).wrapping_add(0x14057b7ef767814f);
                    (z >> 56) as u8
                }
            })
            .collect()
    };
    let build = |ty: Ty, x: u64| -> Box<dyn Gen> {
        if c.route % 2 == 0 {
            crate::adapter::seed_from_u64(ty, x)
        } else {
            crate::adapter::from_seed(ty, &seed_for(ty, x))
        }
    };
    let ux = !c.x ^ 0x5a5a_5a5a;
    let _u = obs(|| build(c.a, ux));
    let want_a = obs(|| build(c.a, c.x));
    let _u2 = obs(|| build(c.b, ux));
    let want_b = obs(|| build(c.b, c.x));
    let _u3 = obs(|| build(c.b, ux));
    let got_a1 = obs(|| build(c.a, c.x));
    let got_b = obs(|| build(c.b, c.x));
    let got_a2 = obs(|| build(c.a, c.x));
    for (what, ty, want, got) in [("first type, built after an unrelated instance", c.a, want_a.clone(), got_a1), ("second type, built right after the first", c.b, want_b, got_b), ("first type, built right after the second", c.a, want_a, got_a2)] {
        if got != want {
            return Err(Fail::new(format!("C19:depends-on-previous-instance:{}", ty.name()), format!("the same value given to {} of {} and then of {}: the generator of the {} returns other values than when built after unrelated generators", if c.route % 2 == 0 { "seed_from_u64" } else { "from_seed" }, c.a.name(), c.b.name(), what)).exp_act(format!("{:x?}", want), format!("{:x?}", got)));
        }
    }
    Ok(CaseInfo::new(c.a != c.b).class(if c.route % 2 == 0 { "seed_from_u64" } else { "from_seed" }).class_if(c.a.info().seed_len != c.b.info().seed_len, "different-seed-lengths"))
}

/// a source that, half-way through delivering the bytes of one `fill_bytes` call, constructs
/// another generator of type `ty` from another source (an instance created and used *inside* an
/// operation of the first one — the tightest interleaving a single thread can produce)
struct ReentrantSrc {
    inner: crate::src::ByteSrc,
    ty: Ty,
    nested_salt: u64,
    nested: usize,
}

impl rand_core::RngCore for ReentrantSrc {
    fn next_u32(&mut self) -> u32 {
        self.inner.next_u32()
    }
    fn next_u64(&mut self) -> u64 {
        self.inner.next_u64()
    }
    fn fill_bytes(&mut self, dest: &mut [u8]) {
        let half = dest.len() / 2;
        let (a, b) = dest.split_at_mut(half);
        self.inner.fill_bytes(a);
        if self.nested < 2 {
            self.nested += 1;
            let mut other = crate::src::ByteSrc::new(crate::src::SrcSpec { prefix: vec![0x33; 7], salt: self.nested_salt, words_differ: false, call_block: 0 });
            let mut g = crate::adapter::from_rng(self.ty, &mut other);
            let _ = g.next_native();
        }
        self.inner.fill_bytes(b);
    }
}

#[derive(Clone, Debug, Serialize, Deserialize)]
pub struct NestedCase {
    pub ty: Ty,
    pub spec: crate::src::SrcSpec,
    pub nested_salt: u64,
}

/// from_rng over a source that constructs and uses another instance of the same type in the
/// middle of delivering the seed bytes must give the generator that the plain source gives
pub fn check_nested(c: &NestedCase) -> CheckResult {
    let want = obs(|| crate::adapter::from_rng(c.ty, &mut crate::src::ByteSrc::new(c.spec.clone())));
    let mut src = ReentrantSrc { inner: crate::src::ByteSrc::new(c.spec.clone()), ty: c.ty, nested_salt: c.nested_salt, nested: 0 };
    let got = obs(|| crate::adapter::from_rng(c.ty, &mut src));
    if got != want {
        return Err(Fail::new(format!("C19:depends-on-nested-instance:{}", c.ty.name()), "from_rng over a source that creates another instance of the same type while delivering the seed bytes returns another generator than over the plain source delivering the same bytes (construction uses storage shared between instances)").exp_act(format!("{:x?}", want), format!("{:x?}", got)));
    }
    Ok(CaseInfo::new(src.nested > 0).class_if(src.nested > 0, "nested-construction-happened"))
}

/// A `JitterRng` whose timer closure itself draws from another `JitterRng` (on the same thread,
/// in the middle of the outer instance's collection) and then returns the scripted reading: the
/// inner instance is just another instance, so the outer one must return what it returns over
/// the plain scripted timer, and nothing may panic.
#[derive(Clone, Debug, Serialize, Deserialize)]
pub struct NestedTimerCase {
    pub outer: gens::TimerProg,
    pub inner: gens::TimerProg,
    pub rounds: u8,
    pub ops: Vec<JOp>,
    /// the inner instance is used at every k-th reading of the outer timer (k >= 1)
    pub every: usize,
}

/// traces of the outer instance over the plain timer (`nested` = false) or over a timer closure
/// that also draws from an inner JitterRng
pub fn nested_timer_trace(c: &NestedTimerCase, nested: bool) -> Vec<String> {
    use rand_core::RngCore;
    use std::sync::{Arc, Mutex};
    {
        let script = c.outer.script();
        let cursor = Arc::new(std::sync::atomic::AtomicUsize::new(0));
        let inner_timer = crate::timer::ScriptTimer::new(c.inner.script(), crate::ops::JITTER_BUDGET);
        let mut inner_rng = rand_jitter::JitterRng::new_with_timer(inner_timer.closure());
        inner_rng.set_rounds(1);
        let inner = Arc::new(Mutex::new(inner_rng));
        let every = c.every.max(1);
        let (sc, cur, inn) = (script.clone(), cursor.clone(), inner.clone());
        let timer = move || {
            let i = cur.fetch_add(1, std::sync::atomic::Ordering::SeqCst);
            if nested && i % every == 0 {
                if let Ok(mut b) = inn.try_lock() {
                    let _ = b.next_u32();
                }
            }
            sc.at(i)
        };
        let mut a = rand_jitter::JitterRng::new_with_timer(timer);
        a.set_rounds(c.rounds.max(1));
        let mut out = Vec::new();
        for op in &c.ops {
            let r = std::panic::catch_unwind(std::panic::AssertUnwindSafe(|| match op {
                JOp::U32 => format!("{:#x}", a.next_u32()),
                JOp::U64 => format!("{:#x}", a.next_u64()),
                JOp::Fill(n) => {
                    let mut b = vec![0xA5u8; *n];
                    a.fill_bytes(&mut b);
                    crate::hexser::hex(&b)
                }
                JOp::Stats(v) => format!("{}", a.timer_stats(*v)),
                JOp::Rounds(r) => {
                    a.set_rounds((*r).max(1));
                    String::new()
                }
                JOp::TestTimer => format!("{:?}", a.test_timer().map_err(crate::adapter::map_timer_error)),
                JOp::Clone => String::new(),
            }));
            match r {
                Ok(v) => out.push(format!("{} @{}", v, cursor.load(std::sync::atomic::Ordering::SeqCst))),
                Err(_) => out.push(format!("<panic: {}>", crate::engine::panic_signature(&crate::engine::take_last_panic().unwrap_or_default()))),
            }
        }
        out
    }
}

pub fn check_nested_timer(c: &NestedTimerCase) -> CheckResult {
    let plain = nested_timer_trace(c, false);
    let nested = nested_timer_trace(c, true);
    if plain != nested {
        let k = plain.iter().zip(nested.iter()).position(|(a, b)| a != b).unwrap_or(0);
        return Err(Fail::new("C19:depends-on-nested-instance:JitterRng", format!("op #{} {:?} of a JitterRng whose timer closure draws from another JitterRng on the same thread differs from the same instance over the plain scripted timer (storage shared between instances)", k, c.ops.get(k))).exp_act(plain.get(k), nested.get(k)));
    }
    Ok(CaseInfo::new(!c.ops.is_empty()).class(format!("inner-used-every:{}", c.every.clamp(1, 4))))
}

/// many threads constructing generators of one type at the same moment (from_seed, seed_from_u64,
/// from_rng over private sources), repeatedly; every generator must be the one the same
/// construction gives when nothing else runs
#[derive(Clone, Debug, Serialize, Deserialize)]
pub struct ParCtorCase {
    pub ty: Ty,
    pub threads: usize,
    pub per_thread: usize,
    pub salt: u64,
    pub route: u8,
}

pub fn check_par_ctor(c: &ParCtorCase) -> CheckResult {
    let ty = c.ty;
    let len = ty.info().seed_len;
    let route = c.route;
    let build = move |t: usize, k: usize, salt: u64| -> Result<[u64; 2], String> {
        let key = salt ^ ((t as u64) << 32) ^ k as u64;
        let spec = crate::src::SrcSpec { prefix: Vec::new(), salt: key, words_differ: false, call_block: 0 };
        // a panicking constructor (C14's subject) is behaviour to compare, not a C19 finding
        std::panic::catch_unwind(std::panic::AssertUnwindSafe(|| {
            let mut g = match (route as usize + k) % 3 {
                0 => crate::adapter::from_rng(ty, &mut crate::src::ByteSrc::new(spec.clone())),
                1 => crate::adapter::from_seed(ty, &spec.bytes(0, len)),
                _ => crate::adapter::seed_from_u64(ty, key),
            };
            [g.next_native(), g.next_native()]
        }))
        .map_err(|_| format!("<panic: {}>", crate::engine::panic_signature(&crate::engine::take_last_panic().unwrap_or_default())))
    };
    let (m, n) = (c.threads.clamp(2, 8), c.per_thread.clamp(1, 64));
    let want: Vec<Vec<Result<[u64; 2], String>>> = (0..m).map(|t| (0..n).map(|k| build(t, k, c.salt)).collect()).collect();
    let barrier = std::sync::Arc::new(std::sync::Barrier::new(m));
    let hs: Vec<_> = (0..m)
        .map(|t| {
            let barrier = barrier.clone();
            let salt = c.salt;
            std::thread::spawn(move || {
                barrier.wait();
                (0..n).map(|k| build(t, k, salt)).collect::<Vec<_>>()
            })
        })
        .collect();
    for (t, h) in hs.into_iter().enumerate() {
        let got = h.join().map_err(|_| Fail::new("C19:panic-in-thread", "a constructor panicked in a worker thread"))?;
        if got != want[t] {
            let k = got.iter().zip(want[t].iter()).position(|(a, b)| a != b).unwrap_or(0);
            return Err(Fail::new(format!("C19:parallel-construction:{}", ty.name()), format!("generator #{} constructed on thread {} while {} other threads were constructing generators of the same type differs from the same construction made alone", k, t, m - 1)).exp_act(format!("{:x?}", want[t].get(k)), format!("{:x?}", got.get(k))));
        }
    }
    Ok(CaseInfo::new(true).class(format!("threads:{}", m)))
}

/// static part: compile the Send/Sync probe against the current tree
pub struct StaticProbe;

fn run_probe(ctx: &Ctx) -> Result<Result<(), String>, String> {
    let dir = ctx.verif_dir.join("harness").join("sendsync_probe");
    let out = Command::new("cargo").current_dir(&dir).arg("check").env("CARGO_NET_OFFLINE", "true").output().map_err(|e| format!("cannot run cargo: {}", e))?;
    if out.status.success() {
        return Ok(Ok(()));
    }
    let err = String::from_utf8_lossy(&out.stderr).to_string();
    let relevant = err.contains("cannot be sent between threads safely") || err.contains("cannot be shared between threads safely") || err.contains("`Send`") || err.contains("`Sync`");
    if relevant {
        let keep: Vec<&str> = err.lines().filter(|l| !l.trim_start().starts_with("Compiling") && !l.trim_start().starts_with("Checking")).collect();
        let start = keep.iter().position(|l| l.starts_with("error")).unwrap_or(0);
        Ok(Err(keep[start..].iter().take(60).cloned().collect::<Vec<_>>().join("\n")))
    } else {
        Err(format!("sendsync_probe does not compile for a reason unrelated to Send/Sync: {}", err.lines().filter(|l| l.starts_with("error")).take(4).collect::<Vec<_>>().join(" | ")))
    }
}

impl SubCheck for StaticProbe {
    fn name(&self) -> String {
        "static/send-sync".into()
    }
    fn weight(&self) -> u64 {
        u64::MAX
    }
    fn run(&self, ctx: &Ctx, property: &str) -> SubResult {
        let t0 = std::time::Instant::now();
        let mut r = SubResult::new(&self.name());
        match run_probe(ctx) {
            Ok(Ok(())) => {
                r.record(&"Send + Sync asserted by the compiler for 25 types (generators, cores, Seed512, JitterRng<fn() -> u64>, TimerError) and for the value returned by JitterRng::new()", &CaseInfo::new(true).class("compiles"));
            }
            Ok(Err(msg)) => {
                r.evaluations = 1;
                r.violation = Some(Violation {
                    property: property.to_string(),
                    subcheck: self.name(),
                    case: json!({"compiler_output": msg}),
                    fail: Fail::new("C19:not-send-sync", "a generator type is not Send + Sync (compiler output in the replay file)"),
                });
            }
            Err(e) => r.inconclusive = Some(e),
        }
        r.wall_s = t0.elapsed().as_secs_f64();
        r
    }
    fn replay(&self, ctx: &Ctx, _case: &Value) -> Result<CheckResult, String> {
        match run_probe(ctx)? {
            Ok(()) => Ok(Ok(CaseInfo::new(true))),
            Err(msg) => Ok(Err(Fail::new("C19:not-send-sync", format!("a generator type is not Send + Sync:\n{}", msg)))),
        }
    }
}

/// a scripted JitterRng instance; with probability `api` it is driven through its whole public
/// API, and then with probability `broken` on a timer that test_timer must reject (reads zero at
/// the start or at an inspected reading, stands still): anything a failed or passed timer test
/// leaves behind process-wide shows up in the next instance
fn jitter_instance(max_ops: usize, api: f64, broken: f64) -> BoxedStrategy<Instance> {
    let info = Ty::Jitter.info();
    let broken_script = prop_oneof![
        (1usize..40, any::<u64>()).prop_map(|(n, salt)| crate::timer::Script::new(vec![0; n], salt)),
        (1u64..1 << 40, any::<u64>()).prop_map(|(c, salt)| crate::timer::Script::new(vec![c; 2600], salt)),
        (gens::timer_prog(false, 4), 0usize..1500).prop_map(|(p, at)| {
            let sc = p.script();
            let mut r: Vec<u64> = (0..at + 1).map(|i| sc.at(i)).collect();
            r[at] = 0;
            crate::timer::Script::new(r, sc.tail_salt)
        }),
    ];
    let api_ops = proptest::collection::vec(prop_oneof![6 => crate::props::c12::jop(24), 3 => Just(JOp::TestTimer)], 1..=max_ops.min(6));
    (gens::jitter_spec(false), gens::ops(&info, max_ops.min(6), 24, false), proptest::bool::weighted(0.3), proptest::option::weighted(api, (api_ops, proptest::option::weighted(broken, broken_script))))
        .prop_map(|(mut spec, mut ops, default_rounds, api)| {
            let mut jops = Vec::new();
            if let Some((j, broken)) = api {
                jops = j;
                if let (Some(b), GenSpec::Jitter { script, .. }) = (broken, &mut spec) {
                    *script = b;
                }
            }
            if default_rounds {
                // rely on the round count new_with_timer starts with
                if let GenSpec::Jitter { rounds, .. } = &mut spec {
                    *rounds = 0;
                }
                ops.truncate(3);
                let mut outs = 0;
                jops.retain(|o| {
                    !matches!(o, JOp::U32 | JOp::U64 | JOp::Fill(_)) || {
                        outs += 1;
                        outs <= 3
                    }
                });
            }
            Instance { spec, ops, jops }
        })
        .boxed()
}

fn instance(max_ops: usize) -> BoxedStrategy<Instance> {
    let tys = gens::all_types_with_jitter();
    proptest::sample::select(tys)
        .prop_flat_map(move |ty| {
            let info = ty.info();
            if ty == Ty::Jitter {
                jitter_instance(max_ops, 0.5, 0.35)
            } else {
                (gens::det_spec(ty, true), gens::ops(&info, max_ops, 300, true)).prop_map(|(spec, ops)| Instance { spec, ops, jops: Vec::new() }).boxed()
            }
        })
        .boxed()
}

/// instances with deliberate repeats: same type, sometimes the very same spec
fn instances(max_k: usize, max_ops: usize) -> BoxedStrategy<Vec<Instance>> {
    (proptest::collection::vec(instance(max_ops), 1..=max_k), proptest::collection::vec((0usize..8, 0u8..8), 0..=4), proptest::collection::vec(gens::ops(&Ty::Xoshiro256Plus.info(), max_ops, 300, true), 4))
        .prop_map(move |(mut v, dups, extra_ops)| {
            for (n, (src, mode)) in dups.into_iter().enumerate() {
                if v.len() >= max_k {
                    break;
                }
                let s = v[src % v.len()].clone();
                let mut d = s.clone();
                match mode {
                    0 => {}                                 // identical twin
                    1 => d.ops = extra_ops[n % 4].clone(),  // same seed, other history
                    // related seeds (anything keyed on a weak digest of the seed would confuse
                    // them): words rotated / halves swapped / constant-byte seeds
                    4 | 5 | 6 | 7 => {
                        if let GenSpec::Det { ty, ctor: crate::ops::Ctor::Seed(sd) } = &s.spec {
                            let mut b = sd.bytes.clone();
                            let len = b.len();
                            match mode {
                                4 => b.rotate_left(4 % len),
                                5 => b.rotate_left(len / 2),
                                6 => b = vec![(n as u8).wrapping_mul(37).wrapping_add(1); len],
                                _ => b.reverse(),
                            }
                            d.spec = GenSpec::Det { ty: *ty, ctor: crate::ops::Ctor::Seed(crate::ops::SeedBytes { class: "related".into(), bytes: b }) };
                            if mode == 6 {
                                // and make the source a constant-byte seed too
                                let idx = src % v.len();
                                if let GenSpec::Det { ctor: crate::ops::Ctor::Seed(s0), .. } = &mut v[idx].spec {
                                    let l = s0.bytes.len();
                                    s0.bytes = vec![(n as u8).wrapping_mul(11).wrapping_add(2); l];
                                }
                            }
                        }
                    }
                    _ => {
                        // same type, other seed
                        if let GenSpec::Det { ty, .. } = &s.spec {
                            d.spec = GenSpec::Det { ty: *ty, ctor: crate::ops::Ctor::U64(n as u64 * 7919 + 1) };
                        }
                    }
                }
                // jumps only where supported (ops were generated for another type)
                if !d.spec.ty().info().jump {
                    d.ops.retain(|o| o.is_output());
                }
                if d.spec.ty() == Ty::Jitter {
                    d.ops.truncate(6);
                    d.ops.iter_mut().for_each(|o| if let Op::Fill(n) = o { *n %= 24 });
                }
                v.push(d);
            }
            v
        })
        .boxed()
}

pub fn def(ctx: &Ctx) -> PropDef {
    let t = ctx.tier;
    let mut subs: Vec<Box<dyn SubCheck>> = vec![Box::new(StaticProbe)];
    // the dynamic scenarios move generators between threads: only sound if the probe compiles
    let probe_ok = matches!(run_probe(ctx), Ok(Ok(())));
    // a real-clock JitterRng::new() early in this long-lived process: whatever it caches
    // process-wide must not influence scripted-timer instances (the fresh child processes of the
    // fresh-process mode have never called it)
    let _ = crate::engine::catch(|| rand_jitter::JitterRng::new().map(|_| ()));
    if probe_ok {
        for part in 0..8 {
            subs.push(PSub::boxed(
                format!("scheduled/{}", part),
                t.pick(150, 8000),
                || {
                    (instances(6, 10), proptest::collection::vec((0usize..6, 0usize..4), 0..=60), 1usize..=4)
                        .prop_map(|(instances, schedule, workers)| Scenario { instances, schedule, workers })
                        .boxed()
                },
                check_scenario,
            ));
        }
        for ty in Ty::ALL {
            let nbits = ty.info().seed_len * 8;
            let seed = ctx.seed;
            subs.push(crate::engine::ESub::boxed(
                format!("seed-pairs/{}", ty.name()),
                (nbits * nbits) as u64,
                move || {
                    // one base seed per run (from VERIF_SEED), all 1- and 2-bit differences
                    let mut z = crate::engine::mix_seed(seed, &format!("C19/seed-pairs/{}", ty.name())) | 1;
                    let bytes: Vec<u8> = (0..nbits / 8)
                        .map(|_| {
                            z ^= z << 13;
                            z ^= z >> 7;
                            z ^= z << 17;
                            (z >> 24) as u8
                        })
                        .collect();
                    let base = gens::Seed { class: "base".into(), bytes };
                    let mut v = Vec::with_capacity(nbits * (nbits + 1) / 2);
                    for i in 0..nbits {
                        for j in i..nbits {
                            v.push(SeedPairCase { ty, base: base.clone(), i, j });
                        }
                    }
                    v
                },
                check_seed_pair,
            ));
        }
        for ty in Ty::ALL {
            subs.push(PSub::boxed(
                format!("ctor-pairs/{}", ty.name()),
                t.pick(600, 60_000),
                move || {
                    let len = ty.info().seed_len;
                    let tail = prop_oneof![5 => Just(Vec::new()), 1 => proptest::collection::vec(any::<u8>(), 0..=len.saturating_sub(8))];
                    (gens::interesting_u64(), tail, 0u8..3, 0u8..3).prop_map(move |(x, tail, first, second)| CtorPairCase { ty, x, tail, first, second }).boxed()
                },
                check_ctor_pair,
            ));
        }
        for ty in Ty::ALL {
            let len = ty.info().seed_len;
            subs.push(PSub::boxed(
                format!("nested-construction/{}", ty.name()),
                t.pick(100, 10_000),
                move || (gens::src_spec(len, 1), any::<u64>()).prop_map(move |(spec, nested_salt)| NestedCase { ty, spec, nested_salt }).boxed(),
                check_nested,
            ));
            subs.push(PSub::boxed(
                format!("parallel-construction/{}", ty.name()),
                t.pick(6, 200),
                move || (2usize..=8, 8usize..=48, any::<u64>(), 0u8..3).prop_map(move |(threads, per_thread, salt, route)| ParCtorCase { ty, threads, per_thread, salt, route }).boxed(),
                check_par_ctor,
            ));
        }
        subs.push(PSub::boxed(
            "nested-timer/JitterRng",
            t.pick(300, 30_000),
            || {
                let ops = proptest::collection::vec(prop_oneof![8 => crate::props::c12::jop(12), 1 => Just(JOp::TestTimer)], 1..=4);
                (gens::timer_prog(false, 6), gens::timer_prog(false, 4), 1u8..=3, ops, prop_oneof![3 => Just(1usize), 2 => 2usize..=7]).prop_map(|(outer, inner, rounds, ops, every)| NestedTimerCase { outer, inner, rounds, ops, every }).boxed()
            },
            check_nested_timer,
        ));
        subs.push(PSub::boxed(
            "ctor-cross-type",
            t.pick(6000, 600_000),
            || {
                let tys = Ty::ALL.to_vec();
                (proptest::sample::select(tys.clone()), proptest::sample::select(tys), gens::interesting_u64(), 0u8..2).prop_map(|(a, b, x, route)| CrossTypeCase { a, b, x, route }).boxed()
            },
            check_cross_type,
        ));
        for part in 0..t.pick(1, 4) {
            subs.push(PSub::boxed(
                format!("fresh-process/{}", part),
                t.pick(120, 1500),
                || {
                    (instances(6, 8), 1usize..=2, proptest::collection::vec(any::<bool>(), 8))
                        .prop_map(|(mut instances, workers, zero)| {
                            // zero seeds are the classic trigger of lazily initialised replacements
                            for (i, inst) in instances.iter_mut().enumerate() {
                                if zero[i % 8] && i % 2 == 0 {
                                    if let GenSpec::Det { ty, ctor } = &mut inst.spec {
                                        *ctor = crate::ops::Ctor::Seed(crate::ops::SeedBytes { class: "zero".into(), bytes: vec![0u8; ty.info().seed_len] });
                                    }
                                }
                            }
                            FreeCase { instances, workers, repeats: 1 }
                        })
                        .boxed()
                },
                check_fresh,
            ));
        }
        subs.push(PSub::boxed(
            "fresh-process/jitter-api",
            t.pick(60, 1500),
            || {
                (proptest::collection::vec(jitter_instance(6, 0.999, 0.4), 2..=4), proptest::option::weighted(0.5, instance(6)))
                    .prop_map(|(mut instances, other)| {
                        if let Some(o) = other {
                            instances.insert(1, o);
                        }
                        // workers == 2: the scenario runs in a fresh child process of its own
                        FreeCase { instances, workers: 2, repeats: 1 }
                    })
                    .boxed()
            },
            check_fresh,
        ));
        // jump-heavy histories: 2-8 instances of ONE jump-capable type, half of them sharing their
        // seed, histories dominated by jump / long_jump and long enough (hundreds to thousands of
        // jumps) that unsynchronised threads are inside the same jump routine at the same moment;
        // workers == 1 is the deterministic round-robin on one thread. Anything a jump routine
        // keeps outside the instance (scratch buffer, memo of the last jump) shows here.
        for ty in Ty::jumpers() {
            subs.push(PSub::boxed(
                format!("jump-heavy/{}", ty.name()),
                t.pick(16, 400),
                move || {
                    let jop = prop_oneof![4 => Just(Op::Jump), 4 => Just(Op::LongJump), 1 => Just(Op::U64), 1 => Just(Op::U32)];
                    let hist = prop_oneof![2 => proptest::collection::vec(jop.clone(), 1..=12), 3 => proptest::collection::vec(jop, 600..=2400)];
                    (2usize..=8, any::<bool>(), prop_oneof![1 => Just(1usize), 2 => 2usize..=8], 0usize..=4)
                        .prop_flat_map(move |(k, shared, workers, prefix)| {
                            (proptest::collection::vec((gens::det_spec(ty, false), hist.clone()), k), Just(shared), Just(workers), Just(prefix)).prop_map(|(v, shared, workers, prefix)| {
                                let first = v[0].clone();
                                let instances = v
                                    .into_iter()
                                    .enumerate()
                                    .map(|(i, (spec, ops))| {
                                        if shared && i % 2 == 1 {
                                            // twin of instance 0: same seed, the same first operations, then the
                                            // OTHER kind of jump from the very same state, then its own history
                                            let p = prefix.min(first.1.len().saturating_sub(1));
                                            let mut o: Vec<Op> = first.1[..p].to_vec();
                                            o.push(match first.1[p] {
                                                Op::Jump => Op::LongJump,
                                                _ => Op::Jump,
                                            });
                                            o.push(Op::U64);
                                            o.extend(ops);
                                            Instance { spec: first.0.clone(), ops: o, jops: Vec::new() }
                                        } else {
                                            Instance { spec, ops, jops: Vec::new() }
                                        }
                                    })
                                    .collect::<Vec<_>>();
                                let workers = workers.min(instances.len());
                                FreeCase { instances, workers, repeats: 1 }
                            })
                        })
                        .boxed()
                },
                check_free,
            ));
        }
        for part in 0..4 {
            subs.push(PSub::boxed(
                format!("free-running/{}", part),
                t.pick(25, 1250),
                || (instances(8, 30), 2usize..=8, 1usize..=3).prop_map(|(instances, workers, repeats)| FreeCase { instances, workers, repeats }).boxed(),
                check_free,
            ));
        }
    }
    PropDef {
        id: "C19",
        rule: "scenario = up to 6 generator instances (types drawn from the 19 deterministic types + scripted JitterRng, with deliberate repeats: identical twins, same seed with another history, same type with another seed; zero seeds; scripted JitterRng also with the round count new_with_timer starts with, after a real-clock JitterRng::new() earlier in the checker process; half of the JitterRng instances are driven through their whole public API (timer_stats, set_rounds, test_timer besides the output calls, with the number of timer readings consumed in the trace), a third of those on a timer that test_timer must reject; a dedicated fresh-process sub-check runs 2-4 such instances in one fresh child process against each alone in a fresh child process; construction is part of the history and happens on the scheduled thread) + a generated schedule of (instance, worker thread) pairs over 1..4 real OS threads: a coordinator hands the boxed generator and one operation to the scheduled worker and gets both back, so exactly one operation runs at a time and the interleaving, including migrations between threads, is the generated one. Oracle: every instance's trace equals its solo replay in a fresh thread, executed both before and after the interleaved run. Free-running mode: instances partitioned over 2..8 unsynchronised threads, repeated. Jump-heavy mode: 2-8 instances of one jump-capable type, half of them sharing a seed, histories of up to 2 400 operations dominated by jump / long_jump, round-robin on one thread or free-running on up to 8. Fresh-process mode: the traces of instances created and advanced round-robin inside the long-lived checker process (where thousands of other generators were created before) must equal the traces each instance produces alone in a freshly spawned child process, so process-wide lazily initialised state cannot hide; in half of these cases the whole scenario itself runs in a fresh child process of its own, so that its own construction order decides the initialisation order of anything process-wide (zero seeds are frequent here). Seed-pair enumeration: for one base seed per type and run, every seed that differs from it in exactly one or two bits (32 896 pairs for 32-byte seeds) is constructed right after the base seed\u{2019}s generator and must equal the same generator constructed after an unrelated one. Constructor pairs: the same key material (a 64-bit value in little-endian bytes, zero-padded or followed by generated bytes) handed back to back to two of from_seed / seed_from_u64 / from_rng, in both orders, against the same constructions made after unrelated instances. Cross-type pairs: the same 64-bit value (or the same leading seed bytes) handed to the same constructor route of two different generator types back to back. Nested construction: from_rng over a source that creates and uses another instance of the same type half-way through delivering the seed bytes, against the plain source. Nested timer: a JitterRng whose timer closure draws from another JitterRng on the same thread (inside the outer instance's collection) against the same instance over the plain scripted timer. Parallel construction: 2-8 threads constructing 8-48 generators of one type each at the same moment through all three routes, against the same constructions made alone. Static part: a probe crate asserting Send + Sync for every type is compiled against the current tree. Non-trivial = >= 2 instances of the same type advanced alternately and >= 1 thread migration; distinct by hash of the scenario.".into(),
        explanation: None,
        assumptions: vec![
            "interleavings inside one operation are not enumerated (the crates contain no synchronisation primitives to instrument)".into(),
            "JITTER_ROUNDS, the only static, is reachable only through JitterRng::new() with the real clock and cannot influence a returned value; it is outside the deterministic oracle".into(),
        ],
        subs,
    }
}
