//! C05 — next_u32, next_u64 and fill_bytes are projections of one forward-only stream.

use super::PropDef;
use crate::adapter::Ty;
use crate::engine::{CaseInfo, CheckResult, Ctx, Fail, PSub, SubCheck};
use crate::gens::{self, GenSpec, Op};
use crate::ops::{apply, fmt_val};
use crate::refmodel::projection::{Projection, Stream};
use proptest::prelude::*;
use serde::{Deserialize, Serialize};

#[derive(Clone, Debug, Serialize, Deserialize)]
pub struct HistCase {
    pub spec: GenSpec,
    /// native words consumed before the history starts (so every buffer index is a start)
    pub pre: usize,
    pub ops: Vec<Op>,
}

pub fn check_hist(c: &HistCase) -> CheckResult {
    let ty = c.spec.ty();
    let info = ty.info();
    let mut a = c.spec.build();
    let mut b = c.spec.build();
    for k in 0..c.pre {
        let (x, y) = (a.next_native(), b.next_native());
        if x != y {
            return Err(Fail::new(format!("C05:twin-diverged:{}", info.name), format!("two generators built the same way differ at native word {}", k)));
        }
    }
    let mut proj = Projection::new(info);
    let mut stream = Stream::new(move || b.next_native());
    let mut kinds = 0u8;
    for (k, op) in c.ops.iter().enumerate() {
        if !op.is_output() {
            continue;
        }
        kinds |= 1 << op.kind();
        let actual = apply(&mut *a, op).unwrap();
        if let Err(expected) = proj.step(op, &actual, &mut stream, c.pre) {
            return Err(Fail::new(
                format!("C05:projection:{}:{}", info.name, match op { Op::U32 => "u32", Op::U64 => "u64", _ => "fill" }),
                format!("op #{} {:?} does not return the stated projection of the next native words", k, op),
            )
            .exp_act(fmt_val(&expected), fmt_val(&actual)));
        }
    }
    // re-synchronise: the next native words of A must be the next unread words of the stream
    let next: Vec<u64> = (0..4).map(|_| a.next_native()).collect();
    let mut ok = false;
    let mut want = Vec::new();
    for cand in proj.cands.clone() {
        let w: Vec<u64> = (0..4).map(|i| stream.get(cand.cursor + i)).collect();
        if w == next {
            ok = true;
        }
        want = w;
    }
    if !ok {
        return Err(Fail::new(format!("C05:resync:{}", info.name), "after the history the generator is not at the stream position the calls account for (a word was skipped, repeated or reordered)")
            .exp_act(format!("{:x?}", want), format!("{:x?}", next)));
    }
    let e = &proj.events;
    let interesting = e.tail_1_7 || e.zero_len || e.straddle_refill || e.pending_then_other;
    Ok(CaseInfo::new(kinds.count_ones() >= 2 && interesting)
        .class(c.spec.class())
        .class_if(e.tail_1_7, "tail-1..7")
        .class_if(e.zero_len, "zero-length")
        .class_if(e.straddle_refill, "straddles-refill")
        .class_if(e.pending_then_other, "pending-half-dropped")
        .class_if(e.pending_taken, "pending-half-taken")
        .class_if(e.ambiguous_zero_fill, "isaac64-empty-fill-while-half-pending")
        .class_if(c.pre > 0, "pre-advanced"))
}

pub fn strategy(ty: Ty, max_ops: usize) -> BoxedStrategy<HistCase> {
    let info = ty.info();
    if ty == Ty::Jitter {
        (gens::jitter_spec(true), 0usize..=2, gens::ops(&info, max_ops.min(24), 120, false))
            .prop_map(|(spec, pre, ops)| HistCase { spec, pre, ops })
            .boxed()
    } else {
        (gens::det_spec(ty, true), gens::pre_advance(&info), gens::ops(&info, max_ops, 5000, false))
            .prop_map(|(spec, pre, ops)| HistCase { spec, pre, ops })
            .boxed()
    }
}

pub fn boundary_strategy(ty: Ty, max_ops: usize) -> BoxedStrategy<HistCase> {
    let info = ty.info();
    (gens::det_spec(ty, true), gens::boundary_pre(&info), gens::boundary_ops(&info, max_ops)).prop_map(|(spec, pre, ops)| HistCase { spec, pre, ops }).boxed()
}

pub fn def(ctx: &Ctx) -> PropDef {
    let t = ctx.tier;
    let mut subs: Vec<Box<dyn SubCheck>> = Vec::new();
    for ty in gens::all_types_with_jitter() {
        let max_ops = t.pick(40, 120);
        if ty == Ty::Jitter {
            // the scripted-timer cases are the expensive ones: several parallel parts
            for part in 0..8 {
                subs.push(PSub::boxed(format!("hist/{}/{}", ty.name(), part), t.pick(500, 25_000), move || strategy(ty, max_ops), check_hist));
            }
        } else {
            subs.push(PSub::boxed(format!("hist/{}", ty.name()), t.pick(6000, 300_000), move || strategy(ty, max_ops), check_hist));
            if ty.info().block > 0 {
                subs.push(PSub::boxed(format!("boundary/{}", ty.name()), t.pick(6000, 300_000), move || boundary_strategy(ty, 12), check_hist));
            }
        }
    }
    if ctx.tier == crate::engine::Tier::Thorough {
        subs.push(crate::props::fuzzsub::FuzzSub::boxed("fz_hist", "C05", 400000, false));
        subs.push(crate::props::fuzzsub::FuzzSub::boxed("fz_hist", "C05", 400000, true));
    }
    PropDef {
        id: "C05",
        rule: "cases = (type in 19 deterministic generators + scripted-timer JitterRng) x constructor (from_seed incl. zero seeds, seed_from_u64) x pre-advance (every buffer index) x history of next_u32/next_u64/fill_bytes(n) (n in {0; 1-8; 9-64; around one and two blocks; exact multiples of the block size; <=5000; 64 KiB and more}); for the buffered generators a second family of boundary-focused histories (pre-advance within 3 words of a block boundary, calls that land exactly on / one short of / one past it); destination slices start at varying offsets from an 8-byte boundary. Generator A executes the history; twin B, built the same way, is only asked for native-width words; the projection model written from the statement predicts every value A returns from B's word stream, and at the end A's next 4 native words must be the next unread words. Non-trivial = >=2 different call kinds and at least one of: zero length, tail 1..7, a call straddling a block refill, a pending half followed by another call; distinct by hash of (spec, pre, ops).".into(),
        explanation: None,
        assumptions: vec![
            "the native word stream is supplied by a twin instance of the same crate type (determinism of construction is itself checked by C10/C19)".into(),
            "an empty fill_bytes of a block generator is a call (it ends the window in which a following next_u32 returns the high half); for the composition-defined generators it is zero calls".into(),
        ],
        subs,
    }
}
