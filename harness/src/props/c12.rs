//! C12 — JitterRng is the Jitterentropy 2.1.0 procedure applied to its timer readings.

use super::PropDef;
use crate::adapter;
use crate::engine::{catch, panic_signature, CaseInfo, Caught, CheckResult, Ctx, Fail, PSub, SubCheck};
use crate::gens::{self, TimerProg};
use crate::refmodel::jitter::Model;
use proptest::prelude::*;
use serde::{Deserialize, Serialize};

#[derive(Clone, Debug, PartialEq, Eq, Serialize, Deserialize)]
pub enum JOp {
    U32,
    U64,
    Fill(usize),
    Stats(bool),
    Rounds(u8),
    TestTimer,
    /// continue on a clone (shares the timer; never inherits a pending half)
    Clone,
}

#[derive(Clone, Debug, Serialize, Deserialize)]
pub struct Case {
    pub prog: TimerProg,
    /// None keeps the default of new_with_timer (64)
    pub rounds0: Option<u8>,
    pub ops: Vec<JOp>,
    /// if set: before the history the pool is preset (cfg(rngs_verif) hook, same value in the
    /// model) such that the FIRST collection returns exactly this value — structured results
    /// (zero, a zero half, all ones, a single bit) cannot be reached by timer scripts alone
    #[serde(default)]
    pub first_result: Option<u64>,
    /// if set: the pool is preset such that the first collection returns (start pool ^ this):
    /// 0 = the collection maps the pool onto itself (a fixed point)
    #[serde(default)]
    pub first_relation: Option<u64>,
    /// if set (and the two above are not): the pool is preset such that it holds exactly the given
    /// value (0, all ones, a single bit, ...) at the given intermediate stage of the first
    /// collection (after a fold, after a rotation, before / after the stir)
    #[serde(default)]
    pub first_stage: Option<(usize, u64)>,
}

pub const BUDGET: usize = 8_000_000;

pub fn jop(max_fill: usize) -> BoxedStrategy<JOp> {
    prop_oneof![
        8 => Just(JOp::U32),
        8 => Just(JOp::U64),
        3 => (0usize..=max_fill).prop_map(JOp::Fill),
        3 => prop_oneof![Just(0usize), 1usize..=9, Just(12usize), Just(16usize)].prop_map(JOp::Fill),
        3 => any::<bool>().prop_map(JOp::Stats),
        2 => gens::jitter_rounds().prop_map(JOp::Rounds),
    ]
    .boxed()
}

pub fn check(c: &Case) -> CheckResult {
    let script = c.prog.script();
    let mut g = adapter::jitter_gen(script.clone(), c.rounds0, BUDGET);
    let mut m = Model::new(script);
    if let Some(r) = c.rounds0 {
        m.set_rounds(r);
    }
    let mut targeted = false;
    if let Some(want) = c.first_result {
        if let Some(p0) = crate::refmodel::jitter::pool_for_result(&m.script, 0, m.rounds, want, BUDGET) {
            if g.jitter().unwrap().set_pool(p0) {
                m.pool = p0;
                targeted = true;
            }
        }
    }
    let mut relation_targeted = false;
    if let (None, Some(rel)) = (c.first_result, c.first_relation) {
        if let Some(p0) = crate::refmodel::jitter::pool_for_relation(&m.script, 0, m.rounds, rel, BUDGET) {
            if g.jitter().unwrap().set_pool(p0) {
                m.pool = p0;
                targeted = true;
                relation_targeted = true;
            }
        }
    }
    let mut stage_targeted = false;
    if let (None, None, Some((stage, want))) = (c.first_result, c.first_relation, c.first_stage) {
        if let Some(p0) = crate::refmodel::jitter::pool_for_stage(&m.script, 0, m.rounds, stage, want, BUDGET) {
            if g.jitter().unwrap().set_pool(p0) {
                m.pool = p0;
                targeted = true;
                stage_targeted = true;
            }
        }
    }
    let mut stats_between_u32 = false;
    let mut last_was_u32 = false;
    let mut rounds_not_64 = c.rounds0.map(|r| r != 64).unwrap_or(false);
    for (k, op) in c.ops.iter().enumerate() {
        // model first (pure), then the real call under catch_unwind
        let (want, model_ok): (String, bool) = match op {
            JOp::U32 => match m.next_u32(BUDGET) {
                Some(v) => (format!("{:#010x}", v), true),
                None => (String::new(), false),
            },
            JOp::U64 => match m.next_u64(BUDGET) {
                Some(v) => (format!("{:#018x}", v), true),
                None => (String::new(), false),
            },
            JOp::Fill(n) => match m.fill(*n, BUDGET) {
                Some(v) => (crate::hexser::hex(&v), true),
                None => (String::new(), false),
            },
            JOp::Stats(v) => (format!("{}", m.timer_stats(*v)), true),
            JOp::Rounds(r) => {
                m.set_rounds(*r);
                if *r != 64 {
                    rounds_not_64 = true;
                }
                (String::new(), true)
            }
            JOp::TestTimer => {
                let _ = m.test_timer();
                (String::new(), true)
            }
            JOp::Clone => {
                m.half = false;
                (String::new(), true)
            }
        };
        if matches!(op, JOp::Clone) {
            g = g.clone_box();
        }
        let got = catch(|| {
            let j = &mut *g;
            match op {
                JOp::U32 => format!("{:#010x}", j.next_u32()),
                JOp::U64 => format!("{:#018x}", j.next_u64()),
                JOp::Fill(n) => crate::hexser::hex(&crate::ops::fill_unaligned(j, *n)),
                JOp::Stats(v) => format!("{}", j.jitter().unwrap().timer_stats(*v)),
                JOp::Rounds(r) => {
                    j.jitter().unwrap().set_rounds(*r);
                    String::new()
                }
                JOp::TestTimer => {
                    // the outcome is C13's subject; here only its readings and pool effect count
                    let _ = j.jitter().unwrap().test_timer();
                    String::new()
                }
                JOp::Clone => String::new(),
            }
        });
        let got = match got {
            Caught::Ok(v) => v,
            Caught::Panic(rec) => return Err(Fail::new(panic_signature(&rec), format!("op #{} {:?} panicked: {}", k, op, rec))),
            Caught::Budget => {
                if model_ok {
                    return Err(Fail::new("C12:reads", format!("op #{} {:?}: the generator kept reading the timer beyond {} readings although the documented procedure finishes after {}", k, op, BUDGET, m.reads)));
                }
                return Err(Fail::inconclusive("C12:budget", "timer script is stuck for both model and generator"));
            }
        };
        if !model_ok {
            return Err(Fail::inconclusive("C12:budget", "timer script is stuck for the model"));
        }
        if got != want {
            return Err(Fail::new(format!("C12:value:{}", match op { JOp::U32 => "u32", JOp::U64 => "u64", JOp::Fill(_) => "fill", JOp::Stats(_) => "timer_stats", _ => "other" }),
                format!("op #{} {:?} returns a value different from the Jitterentropy 2.1.0 procedure on the same readings", k, op)).exp_act(want, got));
        }
        let reads = g.jitter().unwrap().reads();
        if reads != m.reads {
            return Err(Fail::new(format!("C12:reads:{}", match op { JOp::TestTimer => "test_timer", JOp::Stats(_) => "timer_stats", _ => "output" }),
                format!("after op #{} {:?} the number of timer readings consumed differs from the documented procedure", k, op)).exp_act(m.reads, reads));
        }
        if matches!(op, JOp::Stats(_)) && last_was_u32 && c.ops.get(k + 1) == Some(&JOp::U32) {
            stats_between_u32 = true;
        }
        last_was_u32 = matches!(op, JOp::U32);
    }
    Ok(CaseInfo::new(!c.ops.is_empty() && (m.stuck_seen > 0 || stats_between_u32 || rounds_not_64 || targeted))
        .class_if(targeted, "first-result-targeted")
        .class_if(relation_targeted, "first-result-related-to-start-pool")
        .class_if(stage_targeted, "intermediate-pool-value-targeted")
        .class_if(c.first_relation.is_some() && c.first_result.is_none() && !relation_targeted, "relation-unsolvable")
        .class_if(m.stuck_seen > 0, "stuck-measurement-repeated")
        .class_if(stats_between_u32, "timer_stats-between-u32")
        .class_if(c.prog.hostile(), "hostile-deltas")
        .class_if(c.ops.contains(&JOp::TestTimer), "has-test_timer")
        .class_if(m.rounds >= 64, "rounds>=64")
        .class(match m.measurements {
            0 => "measurements:0",
            1..=20 => "measurements:1-20",
            21..=200 => "measurements:21-200",
            _ => "measurements:>200",
        }))
}

/// structured 64-bit results: zero, a zero half, all ones, a single bit, equal halves
pub fn structured_value() -> BoxedStrategy<u64> {
    prop_oneof![
        3 => Just(0u64),
        4 => any::<u32>().prop_map(|v| v as u64),
        3 => any::<u32>().prop_map(|v| (v as u64) << 32),
        1 => Just(u64::MAX),
        2 => (0u32..64).prop_map(|k| 1u64 << k),
        1 => any::<u32>().prop_map(|v| (v as u64) << 32 | v as u64),
    ]
    .boxed()
}

pub fn strategy(max_ops: usize) -> BoxedStrategy<Case> {
    let ops = proptest::collection::vec(prop_oneof![30 => jop(40), 1 => Just(JOp::TestTimer), 2 => Just(JOp::Clone)], 0..=max_ops);
    let relation = prop_oneof![4 => Just(0u64), 1 => Just(u64::MAX), 1 => (0u32..64).prop_map(|k| 1u64 << k)];
    // intermediate stage: the last ones (before / after the stir, the last rotation and fold) and
    // the first ones most often, any other sometimes; value 0 most often
    let stage = (prop_oneof![4 => (0usize..4).prop_map(|k| usize::MAX - k), 2 => 0usize..4, 2 => 0usize..2000], prop_oneof![5 => Just(0u64), 2 => Just(u64::MAX), 2 => structured_value()]);
    (gens::timer_prog(true, 14), proptest::option::weighted(0.85, gens::jitter_rounds()), ops, proptest::option::weighted(0.25, structured_value()), proptest::option::weighted(0.1, relation), proptest::option::weighted(0.2, stage))
        .prop_map(|(prog, rounds0, mut ops, first_result, first_relation, first_stage)| {
            let first_relation = if first_result.is_some() { None } else { first_relation };
            let first_stage = if first_result.is_some() || first_relation.is_some() { None } else { first_stage };
            if first_result.is_some() || first_relation.is_some() || first_stage.is_some() {
                // the targeted collection is the first operation: start with output calls
                ops.insert(0, JOp::U32);
                ops.insert(1, JOp::U32);
            }
            Case { prog, rounds0, ops, first_result, first_relation, first_stage }
        })
        .boxed()
}

/// timer_stats as a function of its direct inputs: pool (hook), first reading t, second reading
/// t + d, with boundary values for both (every power of two, +-1, negated)
#[derive(Clone, Debug, Serialize, Deserialize)]
pub struct StatsCase {
    pub pool: u64,
    pub t: u64,
    pub d: u64,
    pub var_rounds: bool,
    pub mid: [u64; 2],
}

pub fn check_stats(c: &StatsCase) -> CheckResult {
    let t2 = c.t.wrapping_add(c.d);
    let readings = if c.var_rounds { vec![c.t, c.mid[0], c.mid[1], t2] } else { vec![c.t, t2] };
    let script = crate::timer::Script::new(readings, 1);
    let mut g = adapter::jitter_gen(script, None, 64);
    let hooked = g.jitter().unwrap().set_pool(c.pool);
    let r = catch(|| g.jitter().unwrap().timer_stats(c.var_rounds));
    let got = match r {
        Caught::Ok(v) => v,
        Caught::Panic(rec) => return Err(Fail::new(panic_signature(&rec), format!("timer_stats({}) panicked for readings t = {:#x}, t2 = {:#x}: {}", c.var_rounds, c.t, t2, rec))),
        Caught::Budget => return Err(Fail::new("C12:reads:timer_stats", "timer_stats read the timer more than 64 times")),
    };
    let want = t2.wrapping_sub(c.t) as i64;
    if got != want {
        return Err(Fail::new("C12:value:timer_stats", "timer_stats does not return the (wrapping) difference of its two time stamps").exp_act(want, got));
    }
    let reads = g.jitter().unwrap().reads();
    if reads != if c.var_rounds { 4 } else { 2 } {
        return Err(Fail::new("C12:reads:timer_stats", "timer_stats consumed a wrong number of timer readings").exp_act(if c.var_rounds { 4 } else { 2 }, reads));
    }
    if hooked {
        let pool = g.jitter().unwrap().pool().unwrap_or(0);
        let want_pool = crate::refmodel::jitter::fold(c.pool, c.t);
        if pool != want_pool {
            return Err(Fail::new("C12:pool:timer_stats", "timer_stats did not fold exactly its first reading (all 64 bits) into the pool").exp_act(format!("{:#018x}", want_pool), format!("{:#018x}", pool)));
        }
    }
    Ok(CaseInfo::new(c.d != 0).class(if c.var_rounds { "var_rounds" } else { "minimal" }).class_if(c.d >> 63 == 1, "backwards").class_if(c.d == 1 << 63, "delta=2^63"))
}

pub fn stats_strategy() -> BoxedStrategy<StatsCase> {
    (prop_oneof![any::<u64>(), gens::boundary_u64()], prop_oneof![2 => gens::boundary_u64(), 1 => any::<u64>()], prop_oneof![3 => gens::boundary_u64(), 2 => gens::hostile_delta(), 1 => 1u64..5000], any::<bool>(), [any::<u64>(), any::<u64>()])
        .prop_map(|(pool, t, d, var_rounds, mid)| StatsCase { pool, t, d, var_rounds, mid })
        .boxed()
}

pub fn def(ctx: &Ctx) -> PropDef {
    let t = ctx.tier;
    let mut subs: Vec<Box<dyn SubCheck>> = Vec::new();
    let max_ops = t.pick(14, 40);
    for part in 0..16 {
        subs.push(PSub::boxed(format!("history/{}", part), t.pick(1500, 150_000), move || strategy(max_ops), check));
    }
    // very long stuck runs (retry counters of any width up to 2^16 wrap), then recovery
    let thorough = t == crate::engine::Tier::Thorough;
    subs.push(PSub::boxed(
        "long-stuck",
        t.pick(3, 12),
        move || {
            let sizes = if thorough { prop_oneof![Just(300usize), Just(800usize), Just(70_000usize), Just(1_100_000usize)].boxed() } else { prop_oneof![Just(300usize), Just(800usize), Just(70_000usize)].boxed() };
            (1u64..=1_000_000, sizes, 1u8..=3, any::<u64>(), any::<bool>())
                .prop_map(|(start, stuck, rounds, salt, zero)| Case {
                    prog: TimerProg { start, segs: vec![gens::Seg::Jitter { n: 9, lo: 50, spread: 40 }, if zero { gens::Seg::Zero { n: 3 * stuck } } else { gens::Seg::Equal { n: 3 * stuck, d: 7 } }], salt },
                    rounds0: Some(rounds),
                    ops: vec![JOp::U64, JOp::U32, JOp::U64],
                    first_result: None,
                    first_relation: None,
                    first_stage: None,
                })
                .boxed()
        },
        check,
    ));
    subs.push(PSub::boxed("timer-stats-pairs", t.pick(20_000, 2_000_000), stats_strategy, check_stats));
    if ctx.tier == crate::engine::Tier::Thorough {
        subs.push(crate::props::fuzzsub::FuzzSub::boxed("fz_jitter", "C12", 150000, false));
        subs.push(crate::props::fuzzsub::FuzzSub::boxed("fz_jitter", "C12", 150000, true));
    }
    PropDef {
        id: "C12",
        rule: "cases = timer delta program (segments of small jitter, equal deltas = first difference 0, arithmetic progressions = second difference 0, zero deltas, literal hostile deltas: within +-3 of +-2^31 and 2^32, multiples of 2^32, backwards steps, arbitrary u64; start values near 0, 2^32 and u64::MAX; after the script a strictly increasing jittering tail) x initial rounds (default 64 or 1..=255) x optionally a preset pool (hook) chosen by inverting the model's affine collection map so that the first collected value is structured (0, a zero half, all ones, a single bit) x history of next_u32 / next_u64 / fill_bytes(n) / timer_stats(bool) / set_rounds(r) / rarely test_timer; after every operation the returned value AND the cumulative number of timer readings must equal those of the spec-level Jitterentropy 2.1.0 model (feedback-form LFSR, wrapping 32-bit stuck test, rotate by 7, one stir) run on the same readings. Non-trivial = the model saw >= 1 stuck (repeated) measurement, or a timer_stats between two next_u32, or rounds != 64; distinct by hash of (program, history).".into(),
        explanation: None,
        assumptions: vec!["refmodel::jitter is written from the crate documentation and the property text (validated at start-up against the independent Python model incl. hostile deltas)".into()],
        subs,
    }
}
