//! C07 — linear engines have one cycle of length 2^n - 1 through all non-zero states.

use super::PropDef;
use crate::adapter::Ty;
use crate::engine::{CaseInfo, CheckResult, Ctx, ESub, Fail, PSub, SubCheck, Tier};
use crate::gens::{self, Seed};
use crate::gf2::{self, Bits, Matrix, Poly};
use crate::linear::{self, gen_in_state};
use proptest::prelude::*;
use serde::{Deserialize, Serialize};

#[derive(Clone, Debug, Serialize, Deserialize)]
pub struct PairCase {
    pub ty: Ty,
    pub a: Seed,
    pub b: Seed,
}

#[derive(Clone, Debug, Serialize, Deserialize)]
pub struct PowerCase {
    pub ty: Ty,
    pub s: Seed,
    pub k: u64,
}

#[derive(Clone, Debug, Serialize, Deserialize)]
pub struct MinPolyCase {
    pub ty: Ty,
    pub s: Seed,
    pub tap: usize,
}

#[derive(Clone, Debug, Serialize, Deserialize)]
pub enum AlgCase {
    ZeroFixed(Ty),
    Rank(Ty),
    /// T^(2^n) == T and T^((2^n-1)/p) != I for every prime p | 2^n - 1 (matrix route)
    MatrixOrder(Ty),
}

#[derive(Clone, Debug, Serialize, Deserialize)]
pub struct CycleCase {
    pub ty: Ty,
    pub s: Seed,
    pub log2_steps: u32,
}

/// the statement's consequence for users: a generator obtained through any public constructor is
/// never in the all-zero state, neither at once nor after k steps, and its state does not come
/// back to the starting state within k steps
#[derive(Clone, Debug, Serialize, Deserialize)]
pub struct ApiCase {
    pub ty: Ty,
    pub input: crate::props::c08::Input,
    pub k: usize,
}

pub fn check_api_seeded(c: &ApiCase) -> CheckResult {
    use crate::adapter;
    use crate::props::c08::Input;
    use crate::src::{ByteSrc, FailSrc};
    let name = c.ty.name();
    let (mut g, how, special) = match &c.input {
        Input::Seed(s) => (adapter::from_seed(c.ty, &s.bytes), "from_seed", s.is_zero()),
        Input::U64(x) => (adapter::seed_from_u64(c.ty, *x), "seed_from_u64", *x == 0 || *x == 0u64.wrapping_sub(0x9e3779b97f4a7c15)),
        Input::FromRng(spec) => (adapter::from_rng(c.ty, &mut ByteSrc::new(spec.clone())), "from_rng", spec.bytes(0, c.ty.info().seed_len).iter().all(|&b| b == 0)),
        Input::TryFromRng(spec) => match adapter::try_from_rng(c.ty, &mut FailSrc::new(spec.clone(), None, 7)) {
            Ok(g) => (g, "try_from_rng", spec.bytes(0, c.ty.info().seed_len).iter().all(|&b| b == 0)),
            Err(_) => return Ok(CaseInfo::new(false).class("constructor-error (C09's subject)")),
        },
    };
    // the zero-state generator through Deserialize; where Deserialize refuses that state, the
    // validated serde image of the generator itself is inspected instead
    let zero = adapter::from_state_bytes(c.ty, &vec![0u8; c.ty.info().seed_len]);
    let is_zero = |g: &dyn crate::adapter::Gen| -> bool {
        match &zero {
            Some(z) => g.eq_dyn(&**z) != Some(false),
            None => adapter::observe_state(g).map(|img| img.iter().all(|&b| b == 0)).unwrap_or(false),
        }
    };
    let start = g.clone_box();
    for step in 0..=c.k {
        if is_zero(&*g) {
            return Err(Fail::new(format!("C07:api-seeded-zero-state:{}:{}", name, how), format!("a generator obtained through {} is in the all-zero state after {} steps: it sits on the fixed point outside the 2^n-1 cycle and returns the same value forever", how, step)));
        }
        if step > 0 && g.eq_dyn(&*start) != Some(false) {
            return Err(Fail::new(format!("C07:api-seeded-repeats:{}:{}", name, how), format!("a generator obtained through {} is back in its starting state after {} steps", how, step)));
        }
        let _ = g.next_native();
    }
    Ok(CaseInfo::new(special).class(format!("ctor:{}", how)).class_if(special, "zero-block-or-zero-expansion"))
}

fn inconcl(e: String) -> Fail {
    Fail::inconclusive("C07:observation", e)
}

pub fn check_linear(c: &PairCase) -> CheckResult {
    let name = c.ty.name();
    let m = linear::model(c.ty).map_err(inconcl)?;
    let (a, b) = (Bits::from_bytes(&c.a.bytes), Bits::from_bytes(&c.b.bytes));
    let ab = a.xor(&b);
    if ab.is_zero() {
        // a == b: the relation is trivial, and the all-zero state need not be constructible
        return Ok(CaseInfo::new(false).class("degenerate-pair"));
    }
    let (sa, sb, sab) = (linear::step(c.ty, &a).map_err(inconcl)?, linear::step(c.ty, &b).map_err(inconcl)?, linear::step(c.ty, &ab).map_err(inconcl)?);
    if sa.xor(&sb) != sab {
        return Err(Fail::new(format!("C07:not-linear:{}", name), "step(a xor b) != step(a) xor step(b): the state transition is not GF(2)-linear, so the period algebra does not apply (and the published engines are linear)")
            .exp_act(crate::hexser::hex(&sa.xor(&sb).to_bytes(m.n / 8)), crate::hexser::hex(&sab.to_bytes(m.n / 8))));
    }
    if m.t.apply(&a) != sa {
        return Err(Fail::new(format!("C07:matrix-disagrees:{}", name), "T·s != step(s) for a generated state (T was extracted from the basis states)"));
    }
    Ok(CaseInfo::new(a.weight() >= 2 && b.weight() >= 2 && a != b).class(format!("a:{}", c.a.class)).class(format!("b:{}", c.b.class)).class_if(ab.is_zero(), "a==b"))
}

/// start `k` steps before a structured *target* state (preimage under T^k): guards that look at
/// the freshly computed state are reached
pub fn check_power_preimage(c: &PowerCase) -> CheckResult {
    let ti = linear::model_inverse(c.ty).map_err(|e| Fail::new(format!("C07:not-bijective:{}", c.ty.name()), e))?;
    let mut s = Bits::from_bytes(&c.s.bytes);
    for _ in 0..c.k {
        s = ti.apply(&s);
    }
    let n = c.ty.info().nbits;
    check_power(&PowerCase { ty: c.ty, s: Seed { class: format!("pre:{}", c.s.class), bytes: s.to_bytes(n / 8) }, k: c.k + 1 })
}

pub fn check_power(c: &PowerCase) -> CheckResult {
    let name = c.ty.name();
    let m = linear::model(c.ty).map_err(inconcl)?;
    let s = Bits::from_bytes(&c.s.bytes);
    let tk = m.t.pow_limbs(&[c.k]);
    let want = tk.apply(&s);
    let mut g = gen_in_state(c.ty, &s);
    for _ in 0..c.k {
        g.next_native();
    }
    let got = linear::state_of(&*g).map_err(inconcl)?;
    if got != want {
        return Err(Fail::new(format!("C07:power-disagrees:{}", name), format!("T^{}·s != state after {} real steps", c.k, c.k)));
    }
    if got.is_zero() {
        return Err(Fail::new(format!("C07:reached-zero:{}", name), format!("the all-zero state was reached after {} steps from a non-zero state", c.k)));
    }
    Ok(CaseInfo::new(s.weight() >= 2 && c.k >= 2).class(format!("s:{}", c.s.class)).class(match c.k {
        0..=1 => "k<=1",
        2..=64 => "k<=64",
        65..=4096 => "k<=4096",
        _ => "k>4096",
    }))
}

/// Berlekamp–Massey on one state bit of the real state sequence, then primitivity
pub fn check_minpoly(c: &MinPolyCase) -> CheckResult {
    let name = c.ty.name();
    let n = c.ty.info().nbits;
    let s = Bits::from_bytes(&c.s.bytes);
    let tap = c.tap % n;
    let mut g = gen_in_state(c.ty, &s);
    let mut bits = Vec::with_capacity(2 * n + 8);
    for _ in 0..2 * n + 8 {
        bits.push(linear::state_of(&*g).map_err(inconcl)?.get(tap));
        g.next_native();
    }
    let (l, conn) = gf2::berlekamp_massey(&bits);
    if l != n {
        return Err(Fail::new(format!("C07:degree:{}", name), format!("the minimal polynomial of state bit {} along the real state sequence has degree {} < {}: the transition's characteristic polynomial is not primitive (a primitive one forces degree n for every non-zero state)", tap, l, n))
            .exp_act(n, l));
    }
    let m = gf2::reciprocal(&conn, l);
    if let Err(why) = gf2::check_primitive(&m, n) {
        if why.starts_with("factor list") {
            return Err(Fail::inconclusive("C07:factor-list", why));
        }
        return Err(Fail::new(format!("C07:not-primitive:{}", name), format!("the degree-{} minimal polynomial of the state sequence is not primitive: {}", n, why)));
    }
    Ok(CaseInfo::new(s.weight() >= 2).class(format!("s:{}", c.s.class)))
}

pub fn check_alg(c: &AlgCase) -> CheckResult {
    match c {
        AlgCase::ZeroFixed(ty) => {
            if linear::try_gen_in_state(*ty, &Bits::ZERO).is_none() {
                // Deserialize refuses the all-zero state: it cannot be entered at all
                return Ok(CaseInfo::new(false).class("zero-state-not-constructible"));
            }
            let z = linear::step(*ty, &Bits::ZERO).map_err(inconcl)?;
            if !z.is_zero() {
                return Err(Fail::new(format!("C07:zero-not-fixed:{}", ty.name()), "step(0) != 0: the transition is affine, not linear"));
            }
            Ok(CaseInfo::new(false).class("zero-fixed"))
        }
        AlgCase::Rank(ty) => {
            let m = linear::model(*ty).map_err(inconcl)?;
            let (rank, kernel) = m.t.rank_kernel();
            if rank != m.n {
                // execute the witness: s and s xor k must have the same successor
                let k = kernel.unwrap();
                let s = Bits::unit(0);
                let (x, y) = (linear::step(*ty, &s).map_err(inconcl)?, linear::step(*ty, &s.xor(&k)).map_err(inconcl)?);
                let z = linear::step(*ty, &k).map_err(inconcl)?;
                if x == y || z.is_zero() {
                    return Err(Fail::new(format!("C07:not-bijective:{}", ty.name()), format!("rank(T) = {} < {}: the non-zero state {} steps to the all-zero state (executed), so the transition is not a bijection", rank, m.n, crate::hexser::hex(&k.to_bytes(m.n / 8)))));
                }
                return Err(Fail::inconclusive("C07:rank-witness", "rank deficient matrix but the kernel witness does not collide on the real code (non-linear step?)"));
            }
            Ok(CaseInfo::new(true).class("rank-full"))
        }
        AlgCase::MatrixOrder(ty) => {
            let m = linear::model(*ty).map_err(inconcl)?;
            let t: &Matrix = &m.t;
            if t.pow2k(m.n) != *t {
                return Err(Fail::new(format!("C07:matrix-order:{}", ty.name()), format!("T^(2^{}) != T: the order of the transition does not divide 2^{}-1", m.n, m.n)));
            }
            let primes = gf2::prime_factors_2n_minus_1(m.n).map_err(|e| Fail::inconclusive("C07:factor-list", e))?;
            for (pi, _) in primes.iter().enumerate() {
                let mut y = t.clone();
                for (qi, q) in primes.iter().enumerate() {
                    if qi != pi {
                        y = y.pow_limbs(q);
                    }
                }
                if y.is_identity() {
                    return Err(Fail::new(format!("C07:matrix-order:{}", ty.name()), format!("T^((2^{}-1)/p) = I for prime factor #{}: the period is a proper divisor of 2^{}-1", m.n, pi, m.n)));
                }
            }
            Ok(CaseInfo::new(true).class(format!("primes:{}", primes.len())))
        }
    }
}

/// cycle probe on the real code: 2^k steps from a generated state never return to the start
/// and never reach the all-zero state
pub fn check_cycle(c: &CycleCase) -> CheckResult {
    let name = c.ty.name();
    let s = Bits::from_bytes(&c.s.bytes);
    let start = gen_in_state(c.ty, &s);
    let zero = linear::try_gen_in_state(c.ty, &Bits::ZERO);
    let mut g = gen_in_state(c.ty, &s);
    for k in 1..=(1u64 << c.log2_steps) {
        g.next_native();
        if g.eq_dyn(&*start) == Some(true) {
            return Err(Fail::new(format!("C07:short-cycle:{}", name), format!("the state sequence returned to its start after {} steps", k)));
        }
        if zero.as_ref().map(|z| g.eq_dyn(&**z) == Some(true)).unwrap_or(false) {
            return Err(Fail::new(format!("C07:reached-zero:{}", name), format!("the all-zero state was reached after {} steps", k)));
        }
    }
    Ok(CaseInfo::new(s.weight() >= 2).class(format!("s:{}", c.s.class)))
}

pub fn def(ctx: &Ctx) -> PropDef {
    let t = ctx.tier;
    let mut subs: Vec<Box<dyn SubCheck>> = Vec::new();
    for ty in Ty::linear() {
        let n = ty.info().nbits as u32;
        subs.push(ESub::boxed(format!("matrix/{}", ty.name()), 50, move || vec![AlgCase::ZeroFixed(ty), AlgCase::Rank(ty)], check_alg));
        subs.push(PSub::boxed(
            format!("linearity/{}", ty.name()),
            t.pick(5000, 500_000),
            move || (gens::seed_for(ty, false), gens::seed_for(ty, false)).prop_map(move |(a, b)| PairCase { ty, a, b }).boxed(),
            check_linear,
        ));
        let kmax = t.pick(4096u64, 1 << 20);
        subs.push(PSub::boxed(
            format!("power/{}", ty.name()),
            t.pick(40, 600) * if n >= 512 { 1 } else { 2 },
            move || (gens::seed_for(ty, false), prop_oneof![2 => 0u64..=64, 2 => 65u64..=4096, 1 => 0u64..=kmax]).prop_map(move |(s, k)| PowerCase { ty, s, k }).boxed(),
            check_power,
        ));
        subs.push(PSub::boxed(
            format!("preimage/{}", ty.name()),
            t.pick(3000, 400_000) / if n >= 512 { 4 } else { 1 },
            move || (gens::target_state(ty), 1u64..=6).prop_map(move |(s, k)| PowerCase { ty, s, k }).boxed(),
            check_power_preimage,
        ));
        subs.push(PSub::boxed(
            format!("minpoly/{}", ty.name()),
            t.pick(10, 400),
            move || (gens::seed_for(ty, false), 0usize..512).prop_map(move |(s, tap)| MinPolyCase { ty, s, tap }).boxed(),
            check_minpoly,
        ));
        let bl = ty.info().seed_len;
        subs.push(PSub::boxed(
            format!("api-seeded/{}", ty.name()),
            t.pick(3000, 300_000),
            move || {
                use crate::props::c08::Input;
                let input = prop_oneof![
                    3 => gens::seed_for(ty, true).prop_map(Input::Seed),
                    1 => Just(Input::Seed(Seed { class: "zero".into(), bytes: vec![0u8; bl] })),
                    4 => gens::interesting_u64().prop_map(Input::U64),
                    2 => gens::src_spec(bl, 3).prop_map(Input::FromRng),
                    2 => gens::src_spec(bl, 3).prop_map(Input::TryFromRng),
                ];
                (input, 0usize..=40).prop_map(move |(input, k)| ApiCase { ty, input, k }).boxed()
            },
            check_api_seeded,
        ));
        let lg = t.pick(16u32, 24);
        subs.push(PSub::boxed(
            format!("cycle-probe/{}", ty.name()),
            t.pick(12, 48),
            move || gens::seed_for(ty, false).prop_map(move |s| CycleCase { ty, s, log2_steps: lg }).boxed(),
            check_cycle,
        ));
        if t == Tier::Thorough {
            subs.push(ESub::boxed(format!("matrix-order/{}", ty.name()), 1_000_000, move || vec![AlgCase::MatrixOrder(ty)], check_alg));
        }
    }
    PropDef {
        id: "C07",
        rule: "for each of the 15 linear generator types: T (the GF(2) matrix of one next call) is extracted by executing the real step on the n basis states; generated states (uniform, sparse, dense, special words, single byte) then check (i) linearity step(a^b) = step(a)^step(b) and agreement T·s = step(s), (ii) T^k·s = k real steps for generated k, also started k steps BEFORE structured target states (preimages under T^-k of states with zero / small / equal / complementary / negated / constant words), so that guards keyed on the freshly computed state are reached, (iii) Berlekamp-Massey on a generated state bit of the real 2n+8-step state sequence gives a degree-n minimal polynomial m with x^(2^n-1) = 1 and x^((2^n-1)/p) != 1 mod m for every prime p | 2^n-1, (iv) rank(T) = n, T·0 = 0, (v) cycle probes of 2^16 (thorough 2^24) real steps never return to the start nor reach zero, (vi) the consequence the statement draws for users: generators obtained through every public constructor (from_seed incl. zero and near-zero seeds, seed_from_u64 incl. 0 and the SplitMix64 pre-image of 0, from_rng / try_from_rng over sources with leading zero blocks) are never in the all-zero state during their first 0..40 steps and do not return to their starting state; thorough adds the matrix-order route T^(2^n) = T, T^((2^n-1)/p) != I. Non-trivial = generated (non-basis) states of weight >= 2; distinct by hash of the case.".into(),
        explanation: Some("Running the code cannot observe a period of 2^64-1 .. 2^512-1. What the generated inputs decide is that the code's step IS the linear map T (basis images, BLR linearity relation on generated pairs, direct agreement on generated states). For T the statement is computed exactly: rank n makes it a bijection; a degree-n primitive minimal polynomial makes GF(2)[x]/(m) a field in which multiplication by x has order 2^n-1 and acts as a single cycle on the non-zero elements. The only unproved link is linearity outside the sampled states; the complete factorisation of 2^n-1 (Fermat numbers F0..F8, products verified at start-up; primality of the 13 factors checked at design time) is a stated assumption.".into()),
        assumptions: vec![
            "the step is GF(2)-linear outside the sampled states (sampled: BLR relation on generated pairs)".into(),
            "the 13 listed factors of 2^512-1 are prime (sympy, design time); their products are verified at start-up".into(),
            "state observation = serde image validated by from_seed(image) == g".into(),
        ],
        subs,
    }
}
