//! One module per property; each returns its sub-checks.

use crate::engine::{Ctx, SubCheck};

pub mod c01;
pub mod c02;
pub mod c03;
pub mod c04;
pub mod c05;
pub mod c08;
pub mod c09;

pub struct PropDef {
    pub id: &'static str,
    /// how cases are generated and what makes one non-trivial / distinct
    pub rule: String,
    pub explanation: Option<String>,
    pub assumptions: Vec<String>,
    pub subs: Vec<Box<dyn SubCheck>>,
}

pub const ALL: [&str; 7] = ["C01", "C02", "C03", "C04", "C05", "C08", "C09"];

pub fn get(id: &str, ctx: &Ctx) -> Option<PropDef> {
    match id {
        "C01" => Some(c01::def(ctx)),
        "C02" => Some(c02::def(ctx)),
        "C03" => Some(c03::def(ctx)),
        "C04" => Some(c04::def(ctx)),
        "C05" => Some(c05::def(ctx)),
        "C08" => Some(c08::def(ctx)),
        "C09" => Some(c09::def(ctx)),
        _ => None,
    }
}
