//! One module per property; each returns its sub-checks.

use crate::engine::{Ctx, SubCheck};

pub mod c01;
pub mod c02;
pub mod c03;
pub mod c04;
pub mod c05;
pub mod c06;
pub mod c07;
pub mod c08;
pub mod c09;
pub mod c10;
pub mod c11;
pub mod c12;
pub mod c13;
pub mod c14;
pub mod c15;
pub mod c16;
pub mod c17;
pub mod c18;
pub mod c19;
pub mod fuzzsub;

pub struct PropDef {
    pub id: &'static str,
    /// how cases are generated and what makes one non-trivial / distinct
    pub rule: String,
    pub explanation: Option<String>,
    pub assumptions: Vec<String>,
    pub subs: Vec<Box<dyn SubCheck>>,
}

pub const ALL: [&str; 19] = ["C01", "C02", "C03", "C04", "C05", "C06", "C07", "C08", "C09", "C10", "C11", "C12", "C13", "C14", "C15", "C16", "C17", "C18", "C19"];

pub fn get(id: &str, ctx: &Ctx) -> Option<PropDef> {
    match id {
        "C01" => Some(c01::def(ctx)),
        "C02" => Some(c02::def(ctx)),
        "C03" => Some(c03::def(ctx)),
        "C04" => Some(c04::def(ctx)),
        "C05" => Some(c05::def(ctx)),
        "C06" => Some(c06::def(ctx)),
        "C07" => Some(c07::def(ctx)),
        "C08" => Some(c08::def(ctx)),
        "C09" => Some(c09::def(ctx)),
        "C10" => Some(c10::def(ctx)),
        "C11" => Some(c11::def(ctx)),
        "C12" => Some(c12::def(ctx)),
        "C13" => Some(c13::def(ctx)),
        "C14" => Some(c14::def(ctx)),
        "C15" => Some(c15::def(ctx)),
        "C16" => Some(c16::def(ctx)),
        "C17" => Some(c17::def(ctx)),
        "C18" => Some(c18::def(ctx)),
        "C19" => Some(c19::def(ctx)),
        _ => None,
    }
}
