//! One module per property; each returns its sub-checks.

use crate::engine::{Ctx, SubCheck};

pub mod c01;
pub mod c05;

pub struct PropDef {
    pub id: &'static str,
    /// how cases are generated and what makes one non-trivial / distinct
    pub rule: String,
    pub explanation: Option<String>,
    pub assumptions: Vec<String>,
    pub subs: Vec<Box<dyn SubCheck>>,
}

pub const ALL: [&str; 2] = ["C01", "C05"];

pub fn get(id: &str, ctx: &Ctx) -> Option<PropDef> {
    match id {
        "C01" => Some(c01::def(ctx)),
        "C05" => Some(c05::def(ctx)),
        _ => None,
    }
}
