//! C03 — IsaacRng / Isaac64Rng streams equal Jenkins' ISAAC and ISAAC-64.

use super::PropDef;
use crate::adapter::{self, Ty};
use crate::engine::{CaseInfo, CheckResult, Ctx, Fail, PSub, SubCheck};
use crate::gens::{self, Seed};
use crate::refmodel::isaac::{Isaac, Isaac64};
use proptest::prelude::*;
use rand_core::block::BlockRngCore;
use rand_core::SeedableRng;
use serde::{Deserialize, Serialize};

#[derive(Clone, Debug, Serialize, Deserialize)]
pub struct Case {
    pub wide: bool,
    /// None: seed_from_u64(0) against the reference used unseeded
    pub seed: Option<Seed>,
    pub depth: usize,
    pub core_route: bool,
}

enum M {
    A(Box<Isaac>),
    B(Box<Isaac64>),
}
impl M {
    fn next(&mut self) -> u64 {
        match self {
            M::A(m) => m.next() as u64,
            M::B(m) => m.next(),
        }
    }
}

pub fn check(c: &Case) -> CheckResult {
    let ty = if c.wide { Ty::Isaac64 } else { Ty::Isaac };
    let name = ty.name();
    let mut m = match (&c.seed, c.wide) {
        (Some(s), false) => M::A(Box::new(Isaac::from_seed(&s.bytes))),
        (Some(s), true) => M::B(Box::new(Isaac64::from_seed(&s.bytes))),
        (None, false) => M::A(Box::new(Isaac::new(&[], 0))),
        (None, true) => M::B(Box::new(Isaac64::new(&[], 0))),
    };
    let fail = |pos: usize, want: u64, got: u64, route: &str| {
        Fail::new(format!("C03:stream:{}:{}", name, route), format!("stream position {} (block {}, index {}) differs from the reference", pos, pos / 256, pos % 256))
            .exp_act(format!("{:#x}", want), format!("{:#x}", got))
    };
    if c.core_route {
        // blocks through BlockRngCore::generate, read in the normal direction
        macro_rules! via_core {
            ($Core:ty, $conv:expr) => {{
                let mut core = match &c.seed {
                    Some(s) => {
                        let mut seed = [0u8; 32];
                        seed.copy_from_slice(&s.bytes);
                        <$Core>::from_seed(seed)
                    }
                    None => <$Core>::seed_from_u64(0),
                };
                let mut res = <$Core as BlockRngCore>::Results::default();
                let mut pos = 0;
                while pos < c.depth {
                    // `results` is an out-parameter: scramble it (or hand over a fresh buffer)
                    if pos % 512 == 0 {
                        res = <$Core as BlockRngCore>::Results::default();
                    } else {
                        for (k, w) in res.as_mut().iter_mut().enumerate() {
                            *w = (*w).wrapping_mul(3).wrapping_add(k as _).wrapping_add(1);
                        }
                    }
                    core.generate(&mut res);
                    for (i, got) in res.as_ref().iter().enumerate() {
                        let want = m.next();
                        let got = $conv(*got);
                        if got != want {
                            return Err(fail(pos + i, want, got, "core"));
                        }
                    }
                    pos += 256;
                }
            }};
        }
        if c.wide {
            via_core!(rand_isaac::isaac64::Isaac64Core, |x: u64| x);
        } else {
            via_core!(rand_isaac::isaac::IsaacCore, |x: u32| x as u64);
        }
    } else {
        let mut g = match &c.seed {
            Some(s) => adapter::from_seed(ty, &s.bytes),
            None => adapter::seed_from_u64(ty, 0),
        };
        for pos in 0..c.depth {
            let got = g.next_native();
            let want = m.next();
            if got != want {
                return Err(fail(pos, want, got, "rng"));
            }
        }
    }
    let anchor = c.seed.as_ref().map(|s| gens::is_anchor(ty, &s.bytes)).unwrap_or(false);
    Ok(CaseInfo::new(!anchor && c.depth > 10)
        .class(match &c.seed {
            Some(s) => format!("seed:{}", s.class),
            None => "unseeded".into(),
        })
        .class(if c.core_route { "route:core" } else { "route:rng" })
        .class_if(c.depth > 256, "crossed-refill")
        .class_if(c.depth > 512, "two-refills")
        .class_if(c.depth > 65536 * 256, "beyond-2^16-blocks"))
}

/// very many seeds, shallow: the key set-up runs once per seed, so a special case that depends on
/// a coincidence inside the set-up (probability 2^-16 .. 2^-24 per seed) needs seed *count*, not
/// stream depth. One case = a batch of consecutive counter-derived seeds, first 6 words each.
#[derive(Clone, Debug, Serialize, Deserialize)]
pub struct ManyCase {
    pub wide: bool,
    pub start: u64,
    pub count: u32,
}

pub fn check_many(c: &ManyCase) -> CheckResult {
    let ty = if c.wide { Ty::Isaac64 } else { Ty::Isaac };
    let mut seed = [0u8; 32];
    for k in 0..c.count as u64 {
        // counter-based dense seeds (SplitMix64 of start + k, four words)
        let mut z = c.start.wrapping_add(k).wrapping_mul(0x9e3779b97f4a7c15);
        for w in 0..4 {
            z = z.wrapping_add(0x9e3779b97f4a7c15);
            let mut x = z;
            x = (x ^ (x >> 30)).wrapping_mul(0xbf58476d1ce4e5b9);
            x = (x ^ (x >> 27)).wrapping_mul(0x94d049bb133111eb);
            x ^= x >> 31;
            seed[8 * w..8 * w + 8].copy_from_slice(&x.to_le_bytes());
        }
        let mut g = adapter::from_seed(ty, &seed);
        let mut m = if c.wide { M::B(Box::new(Isaac64::from_seed(&seed))) } else { M::A(Box::new(Isaac::from_seed(&seed))) };
        for pos in 0..6 {
            let (got, want) = (g.next_native(), m.next());
            if got != want {
                return Err(Fail::new(format!("C03:stream:{}:rng", ty.name()), format!("seed {} (number {} of the batch): stream position {} differs from the reference", crate::hexser::hex(&seed), k, pos)).exp_act(format!("{:#x}", want), format!("{:#x}", got)));
            }
        }
    }
    Ok(CaseInfo::new(c.count > 0).class("many-seeds-shallow"))
}

pub fn def(ctx: &Ctx) -> PropDef {
    let t = ctx.tier;
    let mut subs: Vec<Box<dyn SubCheck>> = Vec::new();
    for wide in [false, true] {
        let ty = if wide { Ty::Isaac64 } else { Ty::Isaac };
        for core_route in [false, true] {
            let depth = prop_oneof![1 => 1usize..=16, 2 => 17usize..=256, 3 => 257usize..=600, 3 => 601usize..=800, 1 => Just(768usize)];
            let max_blocks = t.pick(3usize, 40);
            subs.push(PSub::boxed(
                format!("stream/{}/{}", ty.name(), if core_route { "core" } else { "rng" }),
                t.pick(5000, 400_000),
                move || {
                    (gens::seed_for(ty, true), depth.clone(), 0usize..=max_blocks)
                        .prop_map(move |(seed, depth, extra)| Case { wide, seed: Some(seed), depth: depth + if extra > 3 { extra * 256 } else { 0 }, core_route })
                        .boxed()
                },
                check,
            ));
        }
        // 2^18 (thorough 2^25) seeds, six words each
        subs.push(PSub::boxed(
            format!("many-seeds/{}", ty.name()),
            t.pick(128, 8192),
            move || any::<u64>().prop_map(move |start| ManyCase { wide, start, count: 4096 }).boxed(),
            check_many,
        ));
        // beyond 2^16 blocks (counter-width boundaries): 66 000 blocks = 16.9 M words
        let long_depth = t.pick(66_000usize, 140_000) * 256;
        subs.push(PSub::boxed(
            format!("long/{}", ty.name()),
            t.pick(2, 8),
            move || (gens::seed_for(ty, true), any::<bool>()).prop_map(move |(seed, core_route)| Case { wide, seed: Some(seed), depth: long_depth, core_route }).boxed(),
            check,
        ));
        subs.push(PSub::boxed(
            format!("unseeded/{}", ty.name()),
            t.pick(40, 400),
            move || (1usize..=1100, any::<bool>()).prop_map(move |(depth, core_route)| Case { wide, seed: None, depth, core_route }).boxed(),
            check,
        ));
    }
    PropDef {
        id: "C03",
        rule: "cases = {IsaacRng, Isaac64Rng} x 32-byte seed (uniform, sparse, dense, special words, single byte, zero, crate test seeds) or seed_from_u64(0) x depth (up to 3 blocks + delta, so every index of a block and >=2 refills; thorough up to 40 blocks) x route {next_u32/next_u64 of the Rng, BlockRngCore::generate of the public core}; every word is compared with the transliteration of Jenkins' rand.c / isaac64.c (randinit(TRUE) with the seed words in the first slots, resp. randinit(FALSE); plain 256-step loop; results handed out from randrsl[255] down). Non-trivial = not a crate test seed and depth > 10; distinct by hash of the case. many-seeds: 128 (thorough 8192) batches of 4096 counter-derived dense seeds per type, first six words each against the reference (2^19, thorough 2^25 key set-ups per type: a special case inside the set-up needs seed count, not depth; one batch counts as one evaluation).".into(),
        explanation: None,
        assumptions: vec!["refmodel::isaac transliterates Jenkins' reference (golden-ratio constants mixed at run time; validated at start-up against the vectors quoted by the crate tests and the independent Python model)".into()],
        subs,
    }
}
