//! One object-safe interface over the 19 deterministic generator types of the five crates.
//!
//! Everything here goes through the crates' *public* API only.

use rand_core::{RngCore, SeedableRng, TryRngCore};
use serde::{Deserialize, Serialize};
use std::any::Any;

#[derive(Clone, Copy, PartialEq, Eq, Debug, Hash, PartialOrd, Ord, Serialize, Deserialize)]
pub enum Ty {
    SplitMix64,
    Xoroshiro64Star,
    Xoroshiro64StarStar,
    Xoroshiro128Plus,
    Xoroshiro128PlusPlus,
    Xoroshiro128StarStar,
    Xoshiro128Plus,
    Xoshiro128PlusPlus,
    Xoshiro128StarStar,
    Xoshiro256Plus,
    Xoshiro256PlusPlus,
    Xoshiro256StarStar,
    Xoshiro512Plus,
    Xoshiro512PlusPlus,
    Xoshiro512StarStar,
    XorShift,
    Hc128,
    Isaac,
    Isaac64,
    /// `JitterRng` over a scripted timer (not in `Ty::ALL`; built with `jitter_gen`)
    Jitter,
}

#[derive(Clone, Copy, PartialEq, Eq, Debug)]
pub enum Engine {
    SplitMix,
    Xoroshiro64,
    Xoroshiro128,
    Xoroshiro128pp,
    Xoshiro128,
    Xoshiro256,
    Xoshiro512,
    XorShift128,
    Hc128,
    Isaac,
    Isaac64,
    Jitter,
}

#[derive(Clone, Copy, PartialEq, Eq, Debug)]
pub enum Scr {
    Plus,
    PlusPlus,
    Star,
    StarStar,
    None,
}

/// How `next_u32` of a 64-bit-word generator projects a word.
#[derive(Clone, Copy, PartialEq, Eq, Debug)]
pub enum Half {
    /// native 32-bit generator
    Native,
    Upper,
    Lower,
    /// SplitMix64: own finaliser of the same counter step
    Mix4,
    /// Isaac64Rng: low half, then high half on an immediately following next_u32
    LowThenHigh,
}

#[derive(Clone, Copy, Debug)]
pub struct Info {
    pub ty: Ty,
    pub name: &'static str,
    pub seed_len: usize,
    /// native word width in bits
    pub word: u32,
    pub engine: Engine,
    pub scr: Scr,
    pub half: Half,
    pub jump: bool,
    pub eq: bool,
    pub serde: bool,
    /// GF(2)-linear engine (C06/C07/C08 domain)
    pub linear: bool,
    /// state bits of the linear engine (0 otherwise)
    pub nbits: usize,
    /// buffered block generator: words per block
    pub block: usize,
}

impl Ty {
    pub const ALL: [Ty; 19] = [
        Ty::SplitMix64,
        Ty::Xoroshiro64Star,
        Ty::Xoroshiro64StarStar,
        Ty::Xoroshiro128Plus,
        Ty::Xoroshiro128PlusPlus,
        Ty::Xoroshiro128StarStar,
        Ty::Xoshiro128Plus,
        Ty::Xoshiro128PlusPlus,
        Ty::Xoshiro128StarStar,
        Ty::Xoshiro256Plus,
        Ty::Xoshiro256PlusPlus,
        Ty::Xoshiro256StarStar,
        Ty::Xoshiro512Plus,
        Ty::Xoshiro512PlusPlus,
        Ty::Xoshiro512StarStar,
        Ty::XorShift,
        Ty::Hc128,
        Ty::Isaac,
        Ty::Isaac64,
    ];

    pub fn xoshiro_family() -> Vec<Ty> {
        Ty::ALL[..15].to_vec()
    }
    pub fn linear() -> Vec<Ty> {
        Ty::ALL.iter().copied().filter(|t| t.info().linear).collect()
    }
    pub fn jumpers() -> Vec<Ty> {
        Ty::ALL.iter().copied().filter(|t| t.info().jump).collect()
    }
    pub fn with_serde() -> Vec<Ty> {
        Ty::ALL.iter().copied().filter(|t| t.info().serde).collect()
    }

    pub fn info(self) -> Info {
        use Engine as E;
        use Half as H;
        use Scr as S;
        let (name, seed_len, word, engine, scr, half, jump, eq, serde, nbits, block) = match self {
            Ty::SplitMix64 => ("SplitMix64", 8, 64, E::SplitMix, S::None, H::Mix4, false, true, true, 0, 0),
            Ty::Xoroshiro64Star => ("Xoroshiro64Star", 8, 32, E::Xoroshiro64, S::Star, H::Native, false, true, true, 64, 0),
            Ty::Xoroshiro64StarStar => ("Xoroshiro64StarStar", 8, 32, E::Xoroshiro64, S::StarStar, H::Native, false, true, true, 64, 0),
            Ty::Xoroshiro128Plus => ("Xoroshiro128Plus", 16, 64, E::Xoroshiro128, S::Plus, H::Upper, true, true, true, 128, 0),
            Ty::Xoroshiro128PlusPlus => ("Xoroshiro128PlusPlus", 16, 64, E::Xoroshiro128pp, S::PlusPlus, H::Lower, true, true, true, 128, 0),
            Ty::Xoroshiro128StarStar => ("Xoroshiro128StarStar", 16, 64, E::Xoroshiro128, S::StarStar, H::Lower, true, true, true, 128, 0),
            Ty::Xoshiro128Plus => ("Xoshiro128Plus", 16, 32, E::Xoshiro128, S::Plus, H::Native, true, true, true, 128, 0),
            Ty::Xoshiro128PlusPlus => ("Xoshiro128PlusPlus", 16, 32, E::Xoshiro128, S::PlusPlus, H::Native, true, true, true, 128, 0),
            Ty::Xoshiro128StarStar => ("Xoshiro128StarStar", 16, 32, E::Xoshiro128, S::StarStar, H::Native, true, true, true, 128, 0),
            Ty::Xoshiro256Plus => ("Xoshiro256Plus", 32, 64, E::Xoshiro256, S::Plus, H::Upper, true, true, true, 256, 0),
            Ty::Xoshiro256PlusPlus => ("Xoshiro256PlusPlus", 32, 64, E::Xoshiro256, S::PlusPlus, H::Upper, true, true, true, 256, 0),
            Ty::Xoshiro256StarStar => ("Xoshiro256StarStar", 32, 64, E::Xoshiro256, S::StarStar, H::Upper, true, true, true, 256, 0),
            Ty::Xoshiro512Plus => ("Xoshiro512Plus", 64, 64, E::Xoshiro512, S::Plus, H::Upper, true, true, true, 512, 0),
            Ty::Xoshiro512PlusPlus => ("Xoshiro512PlusPlus", 64, 64, E::Xoshiro512, S::PlusPlus, H::Upper, true, true, true, 512, 0),
            Ty::Xoshiro512StarStar => ("Xoshiro512StarStar", 64, 64, E::Xoshiro512, S::StarStar, H::Upper, true, true, true, 512, 0),
            Ty::XorShift => ("XorShiftRng", 16, 32, E::XorShift128, S::None, H::Native, false, true, true, 128, 0),
            Ty::Hc128 => ("Hc128Rng", 32, 32, E::Hc128, S::None, H::Native, false, true, false, 0, 16),
            Ty::Isaac => ("IsaacRng", 32, 32, E::Isaac, S::None, H::Native, false, false, true, 0, 256),
            Ty::Isaac64 => ("Isaac64Rng", 32, 64, E::Isaac64, S::None, H::LowThenHigh, false, false, true, 0, 256),
            Ty::Jitter => ("JitterRng", 0, 64, E::Jitter, S::None, H::LowThenHigh, false, false, false, 0, 0),
        };
        Info {
            ty: self,
            name,
            seed_len,
            word,
            engine,
            scr,
            half,
            jump,
            eq,
            serde,
            linear: nbits > 0,
            nbits,
            block,
        }
    }

    pub fn name(self) -> &'static str {
        self.info().name
    }
    pub fn from_name(s: &str) -> Option<Ty> {
        if s == "JitterRng" {
            return Some(Ty::Jitter);
        }
        Ty::ALL.iter().copied().find(|t| t.name() == s)
    }
}

/// Object-safe generator interface.
pub trait Gen {
    fn ty(&self) -> Ty;
    fn next_u32(&mut self) -> u32;
    fn next_u64(&mut self) -> u64;
    fn fill(&mut self, dest: &mut [u8]);
    /// false if the type has no jump
    fn jump(&mut self) -> bool;
    fn long_jump(&mut self) -> bool;
    fn clone_box(&self) -> Box<dyn Gen>;
    /// `Clone::clone_from(self, src)`; false if `src` is of another type
    fn clone_from_dyn(&mut self, src: &dyn Gen) -> bool;
    /// `None` if the type has no `PartialEq` (or the other generator is of another type)
    fn eq_dyn(&self, other: &dyn Gen) -> Option<bool>;
    fn bincode(&self) -> Option<Vec<u8>>;
    fn json(&self) -> Option<String>;
    fn debug(&self) -> String;
    fn debug_alt(&self) -> String;
    fn as_any(&self) -> &dyn Any;
    /// `JitterRng`-only operations
    fn jitter(&mut self) -> Option<&mut dyn JitterOps> {
        None
    }

    /// native-width call, widened
    fn next_native(&mut self) -> u64 {
        if self.ty().info().word == 32 {
            self.next_u32() as u64
        } else {
            self.next_u64()
        }
    }
}

struct W<T>(T);

pub fn mk_seed<T: SeedableRng>(bytes: &[u8]) -> T::Seed {
    let mut s = T::Seed::default();
    s.as_mut().copy_from_slice(bytes);
    s
}

macro_rules! opt_jump {
    (yes, $s:expr, $m:ident) => {{
        $s.0.$m();
        true
    }};
    (no, $s:expr, $m:ident) => {{
        let _ = &$s;
        false
    }};
}
thread_local! {
    static NE_INCONSISTENT: std::cell::Cell<Option<&'static str>> = const { std::cell::Cell::new(None) };
}

/// type name of a generator for which `a != b` did not answer the opposite of `a == b` since the
/// last call (C10 consults this after every case; `PartialEq::ne` may be overridden by hand)
pub fn take_ne_inconsistency() -> Option<&'static str> {
    NE_INCONSISTENT.with(|c| c.take())
}

macro_rules! opt_eq {
    (yes, $T:ty, $s:expr, $o:expr) => {
        $o.as_any().downcast_ref::<W<$T>>().map(|o| {
            let e = $s.0 == o.0;
            #[allow(clippy::nonminimal_bool)]
            let n = $s.0 != o.0;
            if e == n {
                NE_INCONSISTENT.with(|c| c.set(Some(stringify!($T))));
            }
            e
        })
    };
    (no, $T:ty, $s:expr, $o:expr) => {{
        let _ = (&$s, &$o);
        None
    }};
}
macro_rules! opt_ser {
    (yes, $s:expr) => {
        (
            Some(bincode::serialize(&$s.0).expect("bincode serialize")),
            Some(serde_json::to_string(&$s.0).expect("json serialize")),
        )
    };
    (no, $s:expr) => {{
        let _ = &$s;
        (None::<Vec<u8>>, None::<String>)
    }};
}
macro_rules! opt_de_bin {
    (yes, $T:ty, $b:expr) => {
        bincode::deserialize::<$T>($b)
            .map(|g| Box::new(W(g)) as Box<dyn Gen>)
            .map_err(|e| e.to_string())
    };
    (no, $T:ty, $b:expr) => {{
        let _ = $b;
        Err("type has no serde support".to_string())
    }};
}
macro_rules! opt_de_json {
    (yes, $T:ty, $b:expr) => {
        serde_json::from_str::<$T>($b)
            .map(|g| Box::new(W(g)) as Box<dyn Gen>)
            .map_err(|e| e.to_string())
    };
    (no, $T:ty, $b:expr) => {{
        let _ = $b;
        Err("type has no serde support".to_string())
    }};
}

/// the same JSON text through serde_json's other entry points: a reader (no borrowed strings)
/// and a `Value` tree (owned keys) — a Deserialize impl must not depend on which one is used
macro_rules! opt_de_json_alt {
    (yes, $T:ty, $b:expr, $how:expr) => {
        if $how == 0 {
            serde_json::from_reader::<_, $T>($b.as_bytes()).map(|g| Box::new(W(g)) as Box<dyn Gen>).map_err(|e| e.to_string())
        } else {
            serde_json::from_str::<serde_json::Value>($b)
                .and_then(serde_json::from_value::<$T>)
                .map(|g| Box::new(W(g)) as Box<dyn Gen>)
                .map_err(|e| e.to_string())
        }
    };
    (no, $T:ty, $b:expr, $how:expr) => {{
        let _ = ($b, $how);
        Err("type has no serde support".to_string())
    }};
}

macro_rules! table {
    ($( $v:ident => $T:ty, jump:$j:tt, eq:$e:tt, serde:$s:tt; )*) => {
        $(
            impl Gen for W<$T> {
                fn ty(&self) -> Ty { Ty::$v }
                fn next_u32(&mut self) -> u32 { self.0.next_u32() }
                fn next_u64(&mut self) -> u64 { self.0.next_u64() }
                fn fill(&mut self, dest: &mut [u8]) { self.0.fill_bytes(dest) }
                fn jump(&mut self) -> bool { opt_jump!($j, self, jump) }
                fn long_jump(&mut self) -> bool { opt_jump!($j, self, long_jump) }
                fn clone_box(&self) -> Box<dyn Gen> { Box::new(W(self.0.clone())) }
                fn clone_from_dyn(&mut self, src: &dyn Gen) -> bool {
                    match src.as_any().downcast_ref::<W<$T>>() {
                        Some(s) => { self.0.clone_from(&s.0); true }
                        None => false,
                    }
                }
                fn eq_dyn(&self, other: &dyn Gen) -> Option<bool> { opt_eq!($e, $T, self, other) }
                fn bincode(&self) -> Option<Vec<u8>> { opt_ser!($s, self).0 }
                fn json(&self) -> Option<String> { opt_ser!($s, self).1 }
                fn debug(&self) -> String { format!("{:?}", self.0) }
                fn debug_alt(&self) -> String { format!("{:#?}", self.0) }
                fn as_any(&self) -> &dyn Any { self }
            }
        )*

        pub fn from_seed(ty: Ty, seed: &[u8]) -> Box<dyn Gen> {
            match ty { $( Ty::$v => Box::new(W(<$T>::from_seed(mk_seed::<$T>(seed)))), )* Ty::Jitter => panic!("JitterRng is not seedable") }
        }
        pub fn seed_from_u64(ty: Ty, x: u64) -> Box<dyn Gen> {
            match ty { $( Ty::$v => Box::new(W(<$T>::seed_from_u64(x))), )* Ty::Jitter => panic!("JitterRng is not seedable") }
        }
        pub fn from_rng<R: RngCore>(ty: Ty, src: &mut R) -> Box<dyn Gen> {
            match ty { $( Ty::$v => Box::new(W(<$T>::from_rng(src))), )* Ty::Jitter => panic!("JitterRng is not seedable") }
        }
        pub fn try_from_rng<R: TryRngCore>(ty: Ty, src: &mut R) -> Result<Box<dyn Gen>, R::Error> {
            match ty { $( Ty::$v => <$T>::try_from_rng(src).map(|g| Box::new(W(g)) as Box<dyn Gen>), )* Ty::Jitter => panic!("JitterRng is not seedable") }
        }
        pub fn from_bincode(ty: Ty, bytes: &[u8]) -> Result<Box<dyn Gen>, String> {
            match ty { $( Ty::$v => opt_de_bin!($s, $T, bytes), )* Ty::Jitter => Err("no serde".into()) }
        }
        pub fn from_json(ty: Ty, text: &str) -> Result<Box<dyn Gen>, String> {
            match ty { $( Ty::$v => opt_de_json!($s, $T, text), )* Ty::Jitter => Err("no serde".into()) }
        }
        /// how = 0: serde_json::from_reader, 1: through serde_json::Value
        pub fn from_json_alt(ty: Ty, text: &str, how: u8) -> Result<Box<dyn Gen>, String> {
            match ty { $( Ty::$v => opt_de_json_alt!($s, $T, text, how), )* Ty::Jitter => Err("no serde".into()) }
        }
    };
}

table! {
    SplitMix64 => rand_xoshiro::SplitMix64, jump:no, eq:yes, serde:yes;
    Xoroshiro64Star => rand_xoshiro::Xoroshiro64Star, jump:no, eq:yes, serde:yes;
    Xoroshiro64StarStar => rand_xoshiro::Xoroshiro64StarStar, jump:no, eq:yes, serde:yes;
    Xoroshiro128Plus => rand_xoshiro::Xoroshiro128Plus, jump:yes, eq:yes, serde:yes;
    Xoroshiro128PlusPlus => rand_xoshiro::Xoroshiro128PlusPlus, jump:yes, eq:yes, serde:yes;
    Xoroshiro128StarStar => rand_xoshiro::Xoroshiro128StarStar, jump:yes, eq:yes, serde:yes;
    Xoshiro128Plus => rand_xoshiro::Xoshiro128Plus, jump:yes, eq:yes, serde:yes;
    Xoshiro128PlusPlus => rand_xoshiro::Xoshiro128PlusPlus, jump:yes, eq:yes, serde:yes;
    Xoshiro128StarStar => rand_xoshiro::Xoshiro128StarStar, jump:yes, eq:yes, serde:yes;
    Xoshiro256Plus => rand_xoshiro::Xoshiro256Plus, jump:yes, eq:yes, serde:yes;
    Xoshiro256PlusPlus => rand_xoshiro::Xoshiro256PlusPlus, jump:yes, eq:yes, serde:yes;
    Xoshiro256StarStar => rand_xoshiro::Xoshiro256StarStar, jump:yes, eq:yes, serde:yes;
    Xoshiro512Plus => rand_xoshiro::Xoshiro512Plus, jump:yes, eq:yes, serde:yes;
    Xoshiro512PlusPlus => rand_xoshiro::Xoshiro512PlusPlus, jump:yes, eq:yes, serde:yes;
    Xoshiro512StarStar => rand_xoshiro::Xoshiro512StarStar, jump:yes, eq:yes, serde:yes;
    XorShift => rand_xorshift::XorShiftRng, jump:no, eq:yes, serde:yes;
    Hc128 => rand_hc::Hc128Rng, jump:no, eq:yes, serde:no;
    Isaac => rand_isaac::IsaacRng, jump:no, eq:no, serde:yes;
    Isaac64 => rand_isaac::Isaac64Rng, jump:no, eq:no, serde:yes;
}

/// State words of a linear generator (little-endian words of the validated bincode image).
/// Returns `None` when the observation cannot be validated (`from_seed(image) == g` fails and
/// the image is not the all-zero state), so that callers can end inconclusive instead of
/// guessing.
pub fn observe_state(g: &dyn Gen) -> Option<Vec<u8>> {
    let info = g.ty().info();
    if !info.linear && info.engine != Engine::SplitMix {
        return None;
    }
    let img = g.bincode()?;
    if img.len() != info.seed_len {
        return None;
    }
    if info.linear && img.iter().all(|&b| b == 0) {
        // the all-zero state cannot be validated through from_seed (it is remapped)
        return Some(img);
    }
    let back = from_seed(g.ty(), &img);
    if back.eq_dyn(g) == Some(true) {
        Some(img)
    } else {
        None
    }
}

/// Build a generator in an arbitrary state (including all-zero) through the public
/// `Deserialize` implementation. Only for linear types / SplitMix64.
pub fn from_state_bytes(ty: Ty, state: &[u8]) -> Option<Box<dyn Gen>> {
    from_bincode(ty, state).ok()
}

// ---------------------------------------------------------------------------------------------
// JitterRng over a scripted timer

use crate::refmodel::jitter::TimerErr;
use crate::timer::{Script, ScriptTimer};
use rand_jitter::{JitterRng, TimerError};

pub trait JitterOps {
    fn set_rounds(&mut self, r: u8);
    fn timer_stats(&mut self, var_rounds: bool) -> i64;
    fn test_timer(&mut self) -> Result<u8, TimerErr>;
    /// timer readings consumed so far (shared with clones)
    fn reads(&self) -> usize;
    /// hooks (cfg rngs_verif): None when the hook is not compiled in
    fn pool(&self) -> Option<u64>;
    fn set_pool(&mut self, v: u64) -> bool;
    fn stir_once(&mut self) -> bool;
}

pub struct JitterGen<F> {
    pub rng: JitterRng<F>,
    pub timer: ScriptTimer,
}

pub fn map_timer_error(e: TimerError) -> TimerErr {
    match e {
        TimerError::NoTimer => TimerErr::NoTimer,
        TimerError::CoarseTimer => TimerErr::CoarseTimer,
        TimerError::NotMonotonic => TimerErr::NotMonotonic,
        TimerError::TinyVariations => TimerErr::TinyVariations,
        TimerError::TooManyStuck => TimerErr::TooManyStuck,
        _ => TimerErr::Other,
    }
}

impl<F: Fn() -> u64 + Send + Sync + Clone + 'static> JitterOps for JitterGen<F> {
    fn set_rounds(&mut self, r: u8) {
        self.rng.set_rounds(r)
    }
    fn timer_stats(&mut self, var_rounds: bool) -> i64 {
        self.rng.timer_stats(var_rounds)
    }
    fn test_timer(&mut self) -> Result<u8, TimerErr> {
        self.rng.test_timer().map_err(map_timer_error)
    }
    fn reads(&self) -> usize {
        self.timer.reads()
    }
    #[cfg(rngs_verif)]
    fn pool(&self) -> Option<u64> {
        Some(self.rng.verif_pool())
    }
    #[cfg(rngs_verif)]
    fn set_pool(&mut self, v: u64) -> bool {
        self.rng.verif_set_pool(v);
        true
    }
    #[cfg(rngs_verif)]
    fn stir_once(&mut self) -> bool {
        self.rng.verif_stir_once();
        true
    }
    #[cfg(not(rngs_verif))]
    fn pool(&self) -> Option<u64> {
        None
    }
    #[cfg(not(rngs_verif))]
    fn set_pool(&mut self, _v: u64) -> bool {
        false
    }
    #[cfg(not(rngs_verif))]
    fn stir_once(&mut self) -> bool {
        false
    }
}

impl<F: Fn() -> u64 + Send + Sync + Clone + 'static> Gen for JitterGen<F> {
    fn ty(&self) -> Ty {
        Ty::Jitter
    }
    fn next_u32(&mut self) -> u32 {
        self.rng.next_u32()
    }
    fn next_u64(&mut self) -> u64 {
        self.rng.next_u64()
    }
    fn fill(&mut self, dest: &mut [u8]) {
        self.rng.fill_bytes(dest)
    }
    fn jump(&mut self) -> bool {
        false
    }
    fn long_jump(&mut self) -> bool {
        false
    }
    fn clone_box(&self) -> Box<dyn Gen> {
        Box::new(JitterGen { rng: self.rng.clone(), timer: self.timer.clone() })
    }
    fn clone_from_dyn(&mut self, src: &dyn Gen) -> bool {
        match src.as_any().downcast_ref::<JitterGen<F>>() {
            Some(s) => {
                self.rng.clone_from(&s.rng);
                self.timer = s.timer.clone();
                true
            }
            None => false,
        }
    }
    fn eq_dyn(&self, _other: &dyn Gen) -> Option<bool> {
        None
    }
    fn bincode(&self) -> Option<Vec<u8>> {
        None
    }
    fn json(&self) -> Option<String> {
        None
    }
    fn debug(&self) -> String {
        format!("{:?}", self.rng)
    }
    fn debug_alt(&self) -> String {
        format!("{:#?}", self.rng)
    }
    fn as_any(&self) -> &dyn Any {
        self
    }
    fn jitter(&mut self) -> Option<&mut dyn JitterOps> {
        Some(self)
    }
}

/// like `jitter_gen`, but the timer panics once (payload `TimerFault`) at reading `fault_at`
pub fn jitter_gen_faulty(script: Script, rounds: Option<u8>, budget: usize, fault_at: usize) -> Box<dyn Gen> {
    let timer = ScriptTimer::with_fault(script, budget, fault_at);
    let mut rng = JitterRng::new_with_timer(timer.closure());
    if let Some(r) = rounds {
        rng.set_rounds(r);
    }
    Box::new(JitterGen { rng, timer })
}

/// `JitterRng::new_with_timer` over a scripted timer; `rounds` = None keeps the default (64).
pub fn jitter_gen(script: Script, rounds: Option<u8>, budget: usize) -> Box<dyn Gen> {
    let timer = ScriptTimer::new(script, budget);
    let mut rng = JitterRng::new_with_timer(timer.closure());
    if let Some(r) = rounds {
        rng.set_rounds(r);
    }
    Box::new(JitterGen { rng, timer })
}
