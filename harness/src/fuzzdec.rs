//! Byte-level decoders for the libFuzzer targets (hand-decoding through
//! `arbitrary::Unstructured`: any byte string is a valid structured case), the in-target
//! oracle dispatch (VERIF_PROP selects the armed property) and a generic greedy JSON shrinker
//! keyed on the failure signature (used instead of `cargo fuzz tmin`, which minimises to any
//! crash, not to ours).

use crate::adapter::Ty;
use crate::engine::{guarded, CheckResult, Fail};
use crate::gens::{Ctor, GenSpec, Op, Seed, Seg, TimerProg};
use crate::props::{c05, c10, c11, c12, c13, c14, c16};
use arbitrary::Unstructured;
use serde::de::DeserializeOwned;
use serde::Serialize;
use serde_json::Value;

fn fill_len(u: &mut Unstructured, block_bytes: usize) -> usize {
    let sel = u.arbitrary::<u8>().unwrap_or(0);
    let b = u.arbitrary::<u8>().unwrap_or(0) as usize;
    match sel % 8 {
        0 => 0,
        1 | 2 => 1 + b % 8,
        3 => 9 + b % 56,
        4 => (block_bytes + b % 19).saturating_sub(9),
        5 => (2 * block_bytes + b % 11).saturating_sub(5),
        6 => 65 + (b * 16) % 4000,
        _ => b,
    }
}

fn det_spec(u: &mut Unstructured) -> GenSpec {
    let ty = Ty::ALL[u.int_in_range(0..=18usize).unwrap_or(0)];
    let info = ty.info();
    if u.ratio(1u8, 6u8).unwrap_or(false) {
        GenSpec::Det { ty, ctor: Ctor::U64(u.arbitrary().unwrap_or(0)) }
    } else {
        let mut bytes = vec![0u8; info.seed_len];
        let mode = u.arbitrary::<u8>().unwrap_or(0) % 4;
        for b in bytes.iter_mut() {
            *b = match mode {
                0 => 0,
                1 => 0xff,
                _ => u.arbitrary().unwrap_or(0),
            };
        }
        if mode == 0 {
            // sparse: a few bits
            for _ in 0..u.int_in_range(0..=3usize).unwrap_or(0) {
                let p = u.int_in_range(0..=info.seed_len * 8 - 1).unwrap_or(0);
                bytes[p / 8] |= 1 << (p % 8);
            }
        }
        GenSpec::Det { ty, ctor: Ctor::Seed(Seed { class: "fuzz".into(), bytes }) }
    }
}

fn det_ops(u: &mut Unstructured, ty: Ty, max: usize, jumps: bool) -> Vec<Op> {
    let info = ty.info();
    let bb = if info.block > 0 { info.block * (info.word as usize / 8) } else { 64 };
    let mut ops = Vec::new();
    while !u.is_empty() && ops.len() < max {
        let t = u.arbitrary::<u8>().unwrap_or(0) % 16;
        ops.push(match t {
            0..=4 => Op::U32,
            5..=9 => Op::U64,
            10..=13 => Op::Fill(fill_len(u, bb)),
            14 if jumps && info.jump => Op::Jump,
            15 if jumps && info.jump => Op::LongJump,
            _ => Op::U32,
        });
    }
    ops
}

fn pre(u: &mut Unstructured, ty: Ty) -> usize {
    let b = ty.info().block.max(8);
    match u.arbitrary::<u8>().unwrap_or(0) % 4 {
        0 => 0,
        1 => u.int_in_range(0..=b + 2).unwrap_or(0),
        2 => (b + u.int_in_range(0..=6usize).unwrap_or(0)).saturating_sub(3),
        _ => (2 * b + u.int_in_range(0..=6usize).unwrap_or(0)).saturating_sub(3),
    }
}

pub struct HistInput {
    pub spec: GenSpec,
    pub pre: usize,
    pub ops: Vec<Op>,
    pub split: usize,
    pub json: bool,
}

pub fn decode_hist(data: &[u8]) -> HistInput {
    let mut u = Unstructured::new(data);
    let spec = det_spec(&mut u);
    let ty = spec.ty();
    let pre = pre(&mut u, ty);
    let json = u.arbitrary().unwrap_or(false);
    let split = u.arbitrary::<u8>().unwrap_or(0) as usize;
    let ops = det_ops(&mut u, ty, 64, true);
    let split = if ops.is_empty() { 0 } else { split % (ops.len() + 1) };
    HistInput { spec, pre, ops, split, json }
}

fn delta(u: &mut Unstructured) -> u64 {
    let t = u.arbitrary::<u8>().unwrap_or(0);
    match t % 16 {
        0..=5 => 1 + u.arbitrary::<u8>().unwrap_or(0) as u64,
        6..=8 => u.arbitrary::<u16>().unwrap_or(0) as u64,
        9 => 0,
        10 => ((1i64 << 31) + (u.arbitrary::<i8>().unwrap_or(0) % 4) as i64) as u64,
        11 => (-(1i64 << 31) + (u.arbitrary::<i8>().unwrap_or(0) % 4) as i64) as u64,
        12 => ((1i64 << 32) + (u.arbitrary::<i8>().unwrap_or(0) % 4) as i64) as u64,
        13 => (u.arbitrary::<u8>().unwrap_or(0) as i64).wrapping_neg() as u64,
        14 => u.arbitrary::<u32>().unwrap_or(0) as u64,
        _ => u.arbitrary::<u64>().unwrap_or(0),
    }
}

fn rounds(u: &mut Unstructured) -> u8 {
    let b = u.arbitrary::<u8>().unwrap_or(1);
    match b % 8 {
        0..=5 => 1 + (b >> 3) % 4,
        6 => 64,
        _ => b.max(1),
    }
}

pub fn decode_jitter(data: &[u8]) -> (c12::Case, Vec<c16::HOp>) {
    let mut u = Unstructured::new(data);
    let rounds0 = if u.ratio(1u8, 8u8).unwrap_or(false) { None } else { Some(rounds(&mut u)) };
    let start = match u.arbitrary::<u8>().unwrap_or(0) % 4 {
        0 => 1000,
        1 => u64::MAX - u.arbitrary::<u16>().unwrap_or(0) as u64,
        2 => (1u64 << 32) - u.arbitrary::<u16>().unwrap_or(0) as u64,
        _ => u.arbitrary().unwrap_or(0),
    };
    let nops = u.int_in_range(0..=16usize).unwrap_or(0);
    let mut ops = Vec::new();
    let mut hops = Vec::new();
    for _ in 0..nops {
        let t = u.arbitrary::<u8>().unwrap_or(0);
        let (o, h) = match t % 16 {
            0..=4 => (c12::JOp::U32, c16::HOp::U32),
            5..=8 => (c12::JOp::U64, c16::HOp::U64),
            9..=10 => {
                let n = (u.arbitrary::<u8>().unwrap_or(0) % 41) as usize;
                (c12::JOp::Fill(n), c16::HOp::Fill(n))
            }
            11 => (c12::JOp::Stats(t & 16 != 0), c16::HOp::Clone { switch: t & 16 != 0 }),
            12 => (c12::JOp::Rounds(rounds(&mut u)), c16::HOp::Switch((t >> 4) as usize)),
            13 => (c12::JOp::TestTimer, c16::HOp::Clone { switch: true }),
            _ => (c12::JOp::U32, c16::HOp::U32),
        };
        ops.push(o);
        hops.push(h);
    }
    let mut deltas = Vec::new();
    while !u.is_empty() && deltas.len() < 2000 {
        deltas.push(delta(&mut u));
    }
    let salt = deltas.len() as u64 ^ 0x5eed;
    (c12::Case { prog: TimerProg { start, segs: vec![Seg::Lit(deltas)], salt }, rounds0, ops, first_result: None, first_relation: None, first_stage: None }, hops)
}

pub fn decode_timer(data: &[u8]) -> c13::Case {
    let mut u = Unstructured::new(data);
    let first = match u.arbitrary::<u8>().unwrap_or(0) % 4 {
        0 => 1,
        1 => u64::MAX - u.arbitrary::<u16>().unwrap_or(0) as u64,
        _ => 1 + u.arbitrary::<u32>().unwrap_or(0) as u64,
    };
    let gap = 1 + u.arbitrary::<u16>().unwrap_or(0) as u64 % 5000;
    let ninj = u.int_in_range(0..=3usize).unwrap_or(0);
    let mut injects = Vec::new();
    for _ in 0..ninj {
        let t = u.arbitrary::<u8>().unwrap_or(0);
        let a = u.arbitrary::<u16>().unwrap_or(0) as usize;
        injects.push(match t % 7 {
            0 => c13::Inject::ZeroReading { probe: a % 400, second: t & 8 != 0 },
            1 => c13::Inject::Mult32 { probe: a % 400, k: 1 + (t >> 4) as u64 },
            2 => c13::Inject::Backwards { from: a % 400, stride: 1 + (t >> 3) as usize, count: (a >> 9) % 9, back: (t >> 2) as u64 },
            3 => c13::Inject::Mod100 { count: if t & 8 != 0 { 266 + a % 9 } else { a % 301 } },
            5 => c13::Inject::LinkWarmup { mode: (t >> 4) % 3 },
            6 => c13::Inject::AbsReading { probe: a % 400, second: t & 8 != 0, value: ((t >> 4) as u64 + 1) << 32 },
            _ => c13::Inject::Stuck { count: if t & 8 != 0 { 266 + a % 9 } else { a % 300 } },
        });
    }
    let pat = |u: &mut Unstructured| -> c13::Pattern {
        let t = u.arbitrary::<u8>().unwrap_or(0);
        match t % 3 {
            0 => {
                let m = if t & 4 != 0 { (1u64 << (4 + (t >> 3) % 27)).wrapping_add((u.arbitrary::<u8>().unwrap_or(0) % 3) as u64).wrapping_sub(1) } else { (u.arbitrary::<u8>().unwrap_or(0) % 41) as u64 };
                let e = [0u64, 1, 150, 299, 298][(u.arbitrary::<u8>().unwrap_or(0) % 5) as usize];
                let sum = 300 * m + e;
                c13::Pattern::Target { base: (1 + u.arbitrary::<u8>().unwrap_or(0) as u64).min(sum.max(1)), sum }
            }
            1 => {
                let n = 1 + (u.arbitrary::<u8>().unwrap_or(0) % 12) as usize;
                c13::Pattern::Cycle((0..n).map(|_| 1 + u.arbitrary::<u16>().unwrap_or(0) as u64 % 1500).collect())
            }
            _ => c13::Pattern::Random { lo: 1 + u.arbitrary::<u16>().unwrap_or(0) as u64 % 5000, spread: u.arbitrary::<u16>().unwrap_or(0) as u64 % 3000, salt: u.arbitrary().unwrap_or(1) },
        }
    };
    let warm = pat(&mut u);
    let counted = pat(&mut u);
    c13::Case { first, warm, counted, gap, injects, salt: u.arbitrary().unwrap_or(7) }
}

/// (sub-check name in the property's vcheck definition, case as JSON, result)
pub type Outcome = (String, Value, CheckResult);

fn g<C: Serialize>(name: String, case: C, check: &(dyn Fn(&C) -> CheckResult + Send + Sync)) -> Outcome {
    let r = guarded(check, &case);
    (name, serde_json::to_value(&case).unwrap_or(Value::Null), r)
}

pub fn oracle_hist(prop: &str, data: &[u8]) -> Vec<Outcome> {
    let h = decode_hist(data);
    let name = h.spec.ty().name();
    let outs_only: Vec<Op> = h.ops.iter().filter(|o| o.is_output()).cloned().collect();
    let (hist, cont) = (h.ops[..h.split].to_vec(), h.ops[h.split..].to_vec());
    let mut v = Vec::new();
    match prop {
        "C05" => v.push(g(format!("hist/{}", name), c05::HistCase { spec: h.spec, pre: h.pre, ops: outs_only }, &c05::check_hist)),
        "C10" => v.push(g(format!("clone/{}", name), c10::CloneCase { spec: h.spec, pre: h.pre, hist, cont, into_existing: None, lineage: None }, &c10::check_clone)),
        "C11" => {
            if h.spec.ty().info().serde {
                v.push(g(format!("snapshot/{}", name), c11::Case { spec: h.spec, pre: h.pre, hist, json: h.json, cont }, &c11::check));
            }
        }
        _ => {
            let mut ops: Vec<c14::XOp> = h.ops.iter().cloned().map(c14::XOp::Op).collect();
            if h.split < ops.len() {
                ops.insert(h.split, if h.json { c14::XOp::SerdeSwitch(true) } else { c14::XOp::CloneSwitch });
            }
            v.push(g(format!("det/{}", name), c14::DetCase { build: c14::Build::Spec(h.spec), ops }, &c14::check_det));
        }
    }
    v
}

pub fn oracle_jitter(prop: &str, data: &[u8]) -> Vec<Outcome> {
    let (case, hops) = decode_jitter(data);
    match prop {
        "C12" => vec![g("history/0".into(), case, &c12::check)],
        "C16" => vec![g("history/0".into(), c16::HistCase { prog: case.prog, rounds: case.rounds0.unwrap_or(3), ops: hops, fault_at: None }, &c16::check_hist)],
        _ => vec![g("jitter/0".into(), c14::JitCase { prog: case.prog, rounds0: case.rounds0, ops: case.ops, clone_at: None, first_result: case.first_result, start_pool: None, first_relation: case.first_relation }, &c14::check_jit)],
    }
}

pub fn oracle_timer(_prop: &str, data: &[u8]) -> Vec<Outcome> {
    vec![g("timers/0".into(), decode_timer(data), &c13::check)]
}

fn armed() -> String {
    std::env::var("VERIF_PROP").unwrap_or_else(|_| "C14".into())
}

fn report(outs: Vec<Outcome>) {
    static INIT: std::sync::Once = std::sync::Once::new();
    INIT.call_once(|| {});
    let known: Vec<String> = std::env::var("VERIF_KNOWN_SIGS").map(|s| s.split('|').map(|x| x.to_string()).collect()).unwrap_or_default();
    for (name, _case, r) in outs {
        if let Err(f) = r {
            if f.inconclusive || known.contains(&f.signature) {
                continue;
            }
            eprintln!("VERIF-FAIL subcheck={} signature={} :: {}", name, f.signature, f.msg);
            std::process::abort();
        }
    }
}

fn init_hook() {
    static INIT: std::sync::Once = std::sync::Once::new();
    // libfuzzer-sys installs an aborting panic hook; replace it so that catch_unwind works and
    // only oracle failures abort
    INIT.call_once(crate::engine::install_quiet_panic_hook);
}

pub fn run_hist(data: &[u8]) {
    init_hook();
    report(oracle_hist(&armed(), data));
}
pub fn run_jitter(data: &[u8]) {
    init_hook();
    report(oracle_jitter(&armed(), data));
}
pub fn run_timer(data: &[u8]) {
    init_hook();
    report(oracle_timer(&armed(), data));
}

// ---------------------------------------------------------------------------------------------
// generic greedy shrinker over the JSON form of a case, keyed on the failure signature

fn paths(v: &Value, cur: &mut Vec<String>, arrays: &mut Vec<Vec<String>>, numbers: &mut Vec<Vec<String>>) {
    match v {
        Value::Array(a) => {
            arrays.push(cur.clone());
            for (i, x) in a.iter().enumerate() {
                cur.push(i.to_string());
                paths(x, cur, arrays, numbers);
                cur.pop();
            }
        }
        Value::Object(m) => {
            for (k, x) in m {
                cur.push(k.clone());
                paths(x, cur, arrays, numbers);
                cur.pop();
            }
        }
        Value::Number(_) => numbers.push(cur.clone()),
        _ => {}
    }
}

fn at<'a>(v: &'a mut Value, path: &[String]) -> Option<&'a mut Value> {
    let mut c = v;
    for p in path {
        c = match c {
            Value::Array(a) => a.get_mut(p.parse::<usize>().ok()?)?,
            Value::Object(m) => m.get_mut(p)?,
            _ => return None,
        };
    }
    Some(c)
}

pub fn shrink_json<C: Serialize + DeserializeOwned>(case: &C, check: &(dyn Fn(&C) -> CheckResult + Send + Sync), sig: &str, max_checks: usize) -> C {
    let mut best = serde_json::to_value(case).unwrap();
    let mut budget = max_checks;
    let mut still_fails = |v: &Value, budget: &mut usize| -> bool {
        if *budget == 0 {
            return false;
        }
        *budget -= 1;
        match serde_json::from_value::<C>(v.clone()) {
            Ok(c) => matches!(guarded(check, &c), Err(f) if f.signature == sig),
            Err(_) => false,
        }
    };
    let mut progress = true;
    while progress && budget > 0 {
        progress = false;
        let (mut arrays, mut numbers) = (Vec::new(), Vec::new());
        paths(&best, &mut Vec::new(), &mut arrays, &mut numbers);
        // delete array elements, last first
        for ap in arrays.iter().rev() {
            let len = at(&mut best, ap).and_then(|a| a.as_array().map(|x| x.len())).unwrap_or(0);
            let mut i = len;
            while i > 0 {
                i -= 1;
                let mut cand = best.clone();
                if let Some(Value::Array(a)) = at(&mut cand, ap) {
                    if i < a.len() {
                        a.remove(i);
                    }
                }
                if still_fails(&cand, &mut budget) {
                    best = cand;
                    progress = true;
                }
            }
        }
        let (mut arrays2, mut numbers2) = (Vec::new(), Vec::new());
        paths(&best, &mut Vec::new(), &mut arrays2, &mut numbers2);
        for np in numbers2 {
            let cur = at(&mut best, &np).and_then(|n| n.as_u64());
            if let Some(n) = cur {
                for cand_n in [0, n / 2, n.saturating_sub(1)] {
                    if cand_n >= n {
                        continue;
                    }
                    let mut cand = best.clone();
                    if let Some(x) = at(&mut cand, &np) {
                        *x = Value::from(cand_n);
                    }
                    if still_fails(&cand, &mut budget) {
                        best = cand;
                        progress = true;
                        break;
                    }
                }
            }
        }
    }
    serde_json::from_value(best).unwrap_or_else(|_| serde_json::from_value(serde_json::to_value(case).unwrap()).unwrap())
}

/// shrink an artifact of one of the targets for the armed property
pub fn shrink_outcome(target: &str, prop: &str, data: &[u8]) -> Option<(String, Value, Fail)> {
    let outs = match target {
        "fz_hist" => oracle_hist(prop, data),
        "fz_jitter" => oracle_jitter(prop, data),
        _ => oracle_timer(prop, data),
    };
    for (name, case, r) in outs {
        if let Err(f) = r {
            if f.inconclusive {
                continue;
            }
            macro_rules! sh {
                ($C:ty, $check:expr) => {{
                    let c: $C = serde_json::from_value(case.clone()).ok()?;
                    let m = shrink_json(&c, &$check, &f.signature, 3000);
                    let f2 = guarded(&$check, &m).err().unwrap_or(f.clone());
                    return Some((name, serde_json::to_value(&m).ok()?, f2));
                }};
            }
            match (target, prop) {
                ("fz_hist", "C05") => sh!(c05::HistCase, c05::check_hist),
                ("fz_hist", "C10") => sh!(c10::CloneCase, c10::check_clone),
                ("fz_hist", "C11") => sh!(c11::Case, c11::check),
                ("fz_hist", _) => sh!(c14::DetCase, c14::check_det),
                ("fz_jitter", "C12") => sh!(c12::Case, c12::check),
                ("fz_jitter", "C16") => sh!(c16::HistCase, c16::check_hist),
                ("fz_jitter", _) => sh!(c14::JitCase, c14::check_jit),
                _ => sh!(c13::Case, c13::check),
            }
        }
    }
    None
}
