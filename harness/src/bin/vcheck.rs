//! vcheck <property> <quick|thorough> [--verif-dir DIR] [--replay FILE]
//!
//! exit 0: held on everything explored; 1: VIOLATION printed; 2: inconclusive / harness fault.

use rngs_verif::engine::{self, Ctx, Tier};
use rngs_verif::props;
use std::path::PathBuf;

fn main() {
    let args: Vec<String> = std::env::args().skip(1).collect();
    // the recording panic hook in every mode: the child-process traces describe a panicking
    // operation exactly like the checker process does
    engine::install_quiet_panic_hook();
    if args.first().map(|s| s.as_str()) == Some("--scenario-trace") {
        rngs_verif::props::c19::scenario_trace_main();
        return;
    }
    if args.first().map(|s| s.as_str()) == Some("--deep-ctor") {
        rngs_verif::props::c14::deep_ctor_main();
        return;
    }
    if args.first().map(|s| s.as_str()) == Some("--solo-trace") {
        rngs_verif::props::c19::solo_trace_main();
        return;
    }
    let mut pos = Vec::new();
    let mut verif_dir = PathBuf::from(std::env::var("VERIF_DIR").unwrap_or_else(|_| "/verif".into()));
    let mut replay: Option<PathBuf> = None;
    let mut i = 0;
    while i < args.len() {
        match args[i].as_str() {
            "--verif-dir" => {
                verif_dir = PathBuf::from(&args[i + 1]);
                i += 1;
            }
            "--replay" => {
                replay = Some(PathBuf::from(&args[i + 1]));
                i += 1;
            }
            a => pos.push(a.to_string()),
        }
        i += 1;
    }
    if pos.is_empty() {
        eprintln!("usage: vcheck <Cxx> <quick|thorough> [--replay file]");
        std::process::exit(2);
    }
    let id = pos[0].clone();
    let tier = match pos.get(1).map(|s| s.as_str()).or(std::env::var("VERIF_TIER").ok().as_deref()) {
        Some("thorough") => Tier::Thorough,
        _ => Tier::Quick,
    };
    let seed: u64 = std::env::var("VERIF_SEED").ok().and_then(|s| s.trim().parse::<i128>().ok()).map(|v| v as u64).unwrap_or(0);
    let known = engine::load_known_findings(&verif_dir.join("known_findings.txt"));
    let ctx = Ctx { tier, seed, known, verif_dir: verif_dir.clone() };
    engine::install_quiet_panic_hook();

    // watchdog: a run that takes absurdly long is inconclusive, never a violation
    let budget_s: u64 = std::env::var("VERIF_WATCHDOG_S").ok().and_then(|s| s.parse().ok()).unwrap_or(tier.pick(3600, 6 * 3600));
    std::thread::spawn(move || {
        std::thread::sleep(std::time::Duration::from_secs(budget_s));
        println!("INCONCLUSIVE: watchdog after {} s", budget_s);
        std::process::exit(2);
    });

    if let Err(e) = rngs_verif::golden::self_test() {
        println!("INCONCLUSIVE: oracle self-test failed (harness fault): {}", e);
        std::process::exit(2);
    }

    // a panic that escapes the per-case guards is a fault of the harness itself: inconclusive
    let rc = std::panic::catch_unwind(std::panic::AssertUnwindSafe(|| {
        let def = match props::get(&id, &ctx) {
            Some(d) => d,
            None => {
                eprintln!("unknown property {}", id);
                return 2;
            }
        };
        if let Some(path) = replay {
            return rngs_verif::driver::replay(&ctx, def, &path);
        }
        rngs_verif::driver::run(&ctx, def)
    }));
    match rc {
        Ok(rc) => std::process::exit(rc),
        Err(_) => {
            println!("INCONCLUSIVE: harness fault (panic outside a guarded case): {}", engine::take_last_panic().unwrap_or_default());
            std::process::exit(2);
        }
    }
}
