//! Operations and generator specifications shared by the history-based properties (no
//! dependency on proptest, so the fuzz targets can use them).

use crate::adapter::{self, Gen, Ty};
use crate::refmodel::projection::Val;
use crate::timer::Script;
use serde::{Deserialize, Serialize};

#[derive(Clone, Debug, PartialEq, Eq, Serialize, Deserialize)]
pub enum Op {
    U32,
    U64,
    Fill(usize),
    Jump,
    LongJump,
}

impl Op {
    pub fn kind(&self) -> u8 {
        match self {
            Op::U32 => 0,
            Op::U64 => 1,
            Op::Fill(_) => 2,
            Op::Jump => 3,
            Op::LongJump => 4,
        }
    }
    pub fn is_output(&self) -> bool {
        matches!(self, Op::U32 | Op::U64 | Op::Fill(_))
    }
}

#[derive(Clone, Debug, PartialEq, Eq, Serialize, Deserialize)]
pub struct SeedBytes {
    pub class: String,
    #[serde(with = "crate::hexser")]
    pub bytes: Vec<u8>,
}

impl SeedBytes {
    pub fn is_zero(&self) -> bool {
        self.bytes.iter().all(|&b| b == 0)
    }
}

/// How a generator instance is constructed.
#[derive(Clone, Debug, PartialEq, Eq, Serialize, Deserialize)]
pub enum Ctor {
    Seed(SeedBytes),
    U64(u64),
}

#[derive(Clone, Debug, PartialEq, Eq, Serialize, Deserialize)]
pub enum GenSpec {
    Det { ty: Ty, ctor: Ctor },
    /// `JitterRng::new_with_timer(script)` + `set_rounds(rounds)`
    Jitter { script: Script, rounds: u8 },
}

pub const JITTER_BUDGET: usize = 4_000_000;

impl GenSpec {
    pub fn ty(&self) -> Ty {
        match self {
            GenSpec::Det { ty, .. } => *ty,
            GenSpec::Jitter { .. } => Ty::Jitter,
        }
    }
    pub fn build(&self) -> Box<dyn Gen> {
        match self {
            GenSpec::Det { ty, ctor: Ctor::Seed(s) } => adapter::from_seed(*ty, &s.bytes),
            GenSpec::Det { ty, ctor: Ctor::U64(x) } => adapter::seed_from_u64(*ty, *x),
            // rounds == 0: keep whatever `new_with_timer` starts with (no set_rounds call)
            GenSpec::Jitter { script, rounds } => adapter::jitter_gen(script.clone(), if *rounds == 0 { None } else { Some(*rounds) }, JITTER_BUDGET),
        }
    }
    pub fn class(&self) -> String {
        match self {
            GenSpec::Det { ctor: Ctor::Seed(s), .. } => format!("seed:{}", s.class),
            GenSpec::Det { ctor: Ctor::U64(_), .. } => "seed:u64".into(),
            GenSpec::Jitter { .. } => "seed:timer".into(),
        }
    }
}

/// fill_bytes into a destination slice that starts at a varying offset from an 8-byte boundary
/// (the API takes any &mut [u8]); the offset is a function of the length only
pub fn fill_unaligned(g: &mut dyn Gen, n: usize) -> Vec<u8> {
    let off = (n / 3 + n) % 8;
    let mut backing = vec![0xA5u8; n + 16];
    let base = backing.as_ptr() as usize;
    let start = (8 - base % 8) % 8 + off;
    g.fill(&mut backing[start..start + n]);
    backing[start..start + n].to_vec()
}

/// apply one operation; jumps return `None`
pub fn apply(g: &mut dyn Gen, op: &Op) -> Option<Val> {
    match op {
        Op::U32 => Some(Val::U32(g.next_u32())),
        Op::U64 => Some(Val::U64(g.next_u64())),
        Op::Fill(n) => {
            // the destination slice starts at a varying offset from an 8-byte boundary (the API
            // takes any &mut [u8]); the offset is a function of the length only
            Some(Val::Bytes(fill_unaligned(g, *n)))
        }
        Op::Jump => {
            g.jump();
            None
        }
        Op::LongJump => {
            g.long_jump();
            None
        }
    }
}

pub fn fmt_val(v: &Val) -> String {
    match v {
        Val::U32(x) => format!("u32 {:#010x}", x),
        Val::U64(x) => format!("u64 {:#018x}", x),
        Val::Bytes(b) => {
            if b.len() <= 48 {
                format!("bytes[{}] {}", b.len(), crate::hexser::hex(b))
            } else {
                format!("bytes[{}] {}…{}", b.len(), crate::hexser::hex(&b[..24]), crate::hexser::hex(&b[b.len() - 8..]))
            }
        }
    }
}
