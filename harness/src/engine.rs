//! Sub-check engine: proptest driven from a binary, shrinking, replay files, evidence.
//!
//! A *sub-check* generates cases with a `proptest` strategy (seeded from VERIF_SEED and the
//! sub-check's name — no other randomness, no clock), runs each through a pure check function
//! `fn(&Case) -> Result<CaseInfo, Fail>` and, on failure, lets proptest shrink the case; the
//! minimal case is written as a JSON replay file that `vcheck --replay` feeds to the same
//! check function without proptest.

use serde::de::DeserializeOwned;
use serde::{Deserialize, Serialize};
use serde_json::{json, Value};
use std::collections::{BTreeMap, HashSet};
use std::sync::Mutex;

#[derive(Clone, Copy, PartialEq, Eq, Debug)]
pub enum Tier {
    Quick,
    Thorough,
}

impl Tier {
    pub fn pick<T>(self, quick: T, thorough: T) -> T {
        match self {
            Tier::Quick => quick,
            Tier::Thorough => thorough,
        }
    }
    pub fn name(self) -> &'static str {
        self.pick("quick", "thorough")
    }
}

#[derive(Clone, Debug)]
pub struct Ctx {
    pub tier: Tier,
    pub seed: u64,
    /// signatures of known findings (excluded by construction, counted)
    pub known: Vec<KnownFinding>,
    pub verif_dir: std::path::PathBuf,
}

#[derive(Clone, Debug)]
pub struct KnownFinding {
    pub property: String,
    pub signature: String,
    pub what: String,
}

/// What a passing case reports about itself.
#[derive(Clone, Debug, Default)]
pub struct CaseInfo {
    pub nontrivial: bool,
    pub classes: Vec<String>,
}

impl CaseInfo {
    pub fn new(nontrivial: bool) -> CaseInfo {
        CaseInfo { nontrivial, classes: Vec::new() }
    }
    pub fn class(mut self, c: impl Into<String>) -> CaseInfo {
        self.classes.push(c.into());
        self
    }
    pub fn class_if(mut self, cond: bool, c: &str) -> CaseInfo {
        if cond {
            self.classes.push(c.to_string());
        }
        self
    }
}

#[derive(Clone, Debug, Serialize, Deserialize)]
pub struct Fail {
    pub msg: String,
    pub expected: String,
    pub actual: String,
    /// stable key of the failure (used for known findings and for keyed shrinking)
    pub signature: String,
    /// harness fault / observation unavailable: ends the run inconclusive (exit 2)
    #[serde(default)]
    pub inconclusive: bool,
}

impl Fail {
    pub fn new(sig: impl Into<String>, msg: impl Into<String>) -> Fail {
        Fail { msg: msg.into(), expected: String::new(), actual: String::new(), signature: sig.into(), inconclusive: false }
    }
    pub fn exp_act(mut self, e: impl std::fmt::Debug, a: impl std::fmt::Debug) -> Fail {
        self.expected = format!("{:?}", e);
        self.actual = format!("{:?}", a);
        self
    }
    pub fn inconclusive(sig: impl Into<String>, msg: impl Into<String>) -> Fail {
        let mut f = Fail::new(sig, msg);
        f.inconclusive = true;
        f
    }
}

pub type CheckResult = Result<CaseInfo, Fail>;

pub fn fnv64(bytes: &[u8]) -> u64 {
    let mut h: u64 = 0xcbf29ce484222325;
    for b in bytes {
        h ^= *b as u64;
        h = h.wrapping_mul(0x100000001b3);
    }
    h
}

pub fn mix_seed(seed: u64, name: &str) -> u64 {
    let mut z = seed ^ fnv64(name.as_bytes()).rotate_left(17);
    z = (z ^ (z >> 30)).wrapping_mul(0xbf58476d1ce4e5b9);
    z = (z ^ (z >> 27)).wrapping_mul(0x94d049bb133111eb);
    z ^ (z >> 31)
}

#[derive(Clone, Debug, Serialize, Deserialize)]
pub struct Violation {
    pub property: String,
    pub subcheck: String,
    pub case: Value,
    pub fail: Fail,
}

#[derive(Debug, Default)]
pub struct SubResult {
    pub name: String,
    pub evaluations: u64,
    pub nontrivial_hashes: HashSet<u64>,
    pub classes: BTreeMap<String, u64>,
    pub samples: Vec<Value>,
    pub violation: Option<Violation>,
    pub known_hits: BTreeMap<String, u64>,
    pub inconclusive: Option<String>,
    pub extra: BTreeMap<String, Value>,
    pub wall_s: f64,
}

impl SubResult {
    pub fn new(name: &str) -> SubResult {
        SubResult { name: name.to_string(), ..Default::default() }
    }
    /// record one explored case (enumerated sub-checks call this directly)
    pub fn record<C: Serialize>(&mut self, case: &C, info: &CaseInfo) {
        self.evaluations += 1;
        for c in &info.classes {
            *self.classes.entry(c.clone()).or_insert(0) += 1;
        }
        if info.nontrivial {
            let js = serde_json::to_vec(case).unwrap_or_default();
            let h = fnv64(&js) ^ fnv64(self.name.as_bytes()).rotate_left(1);
            if self.nontrivial_hashes.insert(h) && self.samples.len() < 2 {
                self.samples.push(serde_json::to_value(case).unwrap_or(Value::Null));
            }
        }
    }
}

/// Object-safe sub-check.
pub trait SubCheck: Send + Sync {
    fn name(&self) -> String;
    fn run(&self, ctx: &Ctx, property: &str) -> SubResult;
    /// re-execute one saved case through the same oracle, without proptest
    fn replay(&self, ctx: &Ctx, case: &Value) -> Result<CheckResult, String>;
    /// rough relative cost, used to order jobs (largest first)
    fn weight(&self) -> u64 {
        1
    }
}

thread_local! {
    static LAST_PANIC: std::cell::RefCell<Option<String>> = const { std::cell::RefCell::new(None) };
}

/// Install a process-wide quiet panic hook that records message and location per thread.
pub fn install_quiet_panic_hook() {
    std::panic::set_hook(Box::new(|info| {
        let msg = if let Some(s) = info.payload().downcast_ref::<&str>() {
            s.to_string()
        } else if let Some(s) = info.payload().downcast_ref::<String>() {
            s.clone()
        } else if info.payload().downcast_ref::<crate::timer::TimerBudget>().is_some() {
            "<<timer budget>>".to_string()
        } else if info.payload().downcast_ref::<crate::timer::TimerFault>().is_some() {
            "<<injected timer fault>>".to_string()
        } else {
            "<non-string panic payload>".to_string()
        };
        let loc = info.location().map(|l| format!("{}:{}", l.file(), l.line())).unwrap_or_default();
        if std::env::var_os("VERIF_DEBUG_PANIC").is_some() {
            eprintln!("panic: {} @ {}", msg, loc);
        }
        LAST_PANIC.with(|p| *p.borrow_mut() = Some(format!("{} @ {}", msg, loc)));
    }));
}

pub fn take_last_panic() -> Option<String> {
    LAST_PANIC.with(|p| p.borrow_mut().take())
}

/// Outcome of running a closure under `catch_unwind`.
pub enum Caught<T> {
    Ok(T),
    /// crate (or harness) panic: "message @ file:line"
    Panic(String),
    /// the scripted timer's read budget was exceeded
    Budget,
}

pub fn catch<T>(f: impl FnOnce() -> T) -> Caught<T> {
    let _ = take_last_panic();
    match std::panic::catch_unwind(std::panic::AssertUnwindSafe(f)) {
        Ok(v) => Caught::Ok(v),
        Err(p) => {
            let rec = take_last_panic();
            if p.downcast_ref::<crate::timer::TimerBudget>().is_some() {
                Caught::Budget
            } else {
                Caught::Panic(rec.unwrap_or_else(|| "<panic without record>".to_string()))
            }
        }
    }
}

/// Strip the line number and absolute prefix from a recorded panic so that the signature is
/// stable: "message @ crate/src/file.rs".
pub fn panic_signature(rec: &str) -> String {
    let (msg, loc) = match rec.rsplit_once(" @ ") {
        Some((m, l)) => (m, l),
        None => (rec, ""),
    };
    let file = loc.rsplit_once(':').map(|(f, _)| f).unwrap_or(loc);
    let file = match file.find("rand_") {
        Some(i) => &file[i..],
        None => file,
    };
    // numbers inside messages (indices, lengths) are normalised
    let mut m = String::new();
    let mut last_digit = false;
    for ch in msg.chars() {
        if ch.is_ascii_digit() {
            if !last_digit {
                m.push('#');
            }
            last_digit = true;
        } else {
            m.push(ch);
            last_digit = false;
        }
    }
    format!("panic:{} @ {}", m, file)
}

/// Run a check function with panics converted into failures (signature = panic signature).
pub fn guarded<C>(check: &(dyn Fn(&C) -> CheckResult + Send + Sync), case: &C) -> CheckResult {
    match catch(|| check(case)) {
        Caught::Ok(r) => r,
        Caught::Panic(rec) => {
            // a panic located in the harness's own sources is a harness fault, not a finding
            let loc = rec.rsplit_once(" @ ").map(|(_, l)| l).unwrap_or("");
            if loc.starts_with("src/") || loc.contains("/verif/harness/src/") {
                Err(Fail::inconclusive("harness-panic", format!("harness panicked: {}", rec)))
            } else {
                Err(Fail::new(panic_signature(&rec), format!("panicked: {}", rec)))
            }
        }
        Caught::Budget => Err(Fail::inconclusive("timer-budget", "scripted timer read budget exceeded outside a guarded call")),
    }
}

#[cfg(feature = "pbt")]
pub use pbt::*;

#[cfg(feature = "pbt")]
mod pbt {
    use super::*;
    use proptest::strategy::BoxedStrategy;
    use proptest::test_runner::{Config, RngSeed, TestCaseError, TestError, TestRunner};

    /// proptest-driven sub-check
    pub struct PSub<C> {
        pub name: String,
        pub cases: u32,
        pub strat: Box<dyn Fn() -> BoxedStrategy<C> + Send + Sync>,
        pub check: Box<dyn Fn(&C) -> CheckResult + Send + Sync>,
        pub rule: &'static str,
    }

    impl<C> PSub<C>
    where
        C: Serialize + DeserializeOwned + std::fmt::Debug + Clone + Send + Sync + 'static,
    {
        pub fn boxed(
            name: impl Into<String>,
            cases: u32,
            strat: impl Fn() -> BoxedStrategy<C> + Send + Sync + 'static,
            check: impl Fn(&C) -> CheckResult + Send + Sync + 'static,
        ) -> Box<dyn SubCheck> {
            Box::new(PSub { name: name.into(), cases, strat: Box::new(strat), check: Box::new(check), rule: "" })
        }
    }

    impl<C> SubCheck for PSub<C>
    where
        C: Serialize + DeserializeOwned + std::fmt::Debug + Clone + Send + Sync + 'static,
    {
        fn name(&self) -> String {
            self.name.clone()
        }
        fn weight(&self) -> u64 {
            self.cases as u64
        }

        fn run(&self, ctx: &Ctx, property: &str) -> SubResult {
            let t0 = std::time::Instant::now();
            let res = Mutex::new(SubResult::new(&self.name));
            let failed = std::sync::atomic::AtomicBool::new(false);
            let config = Config {
                cases: self.cases,
                failure_persistence: None,
                rng_seed: RngSeed::Fixed(mix_seed(ctx.seed, &self.name)),
                // sub-checks with few cases are the expensive (long-run) ones: bound their shrinking
                max_shrink_iters: if self.cases <= 64 { 40 } else { 4000 },
                max_global_rejects: 65536,
                ..Config::default()
            };
            let mut runner = TestRunner::new(config);
            let strat = (self.strat)();
            let known: Vec<&KnownFinding> = ctx.known.iter().filter(|k| k.property == property).collect();
            let outcome = runner.run(&strat, |case| {
                let r = guarded(&*self.check, &case);
                let counting = !failed.load(std::sync::atomic::Ordering::SeqCst);
                match r {
                    Ok(info) => {
                        if counting {
                            res.lock().unwrap().record(&case, &info);
                        }
                        Ok(())
                    }
                    Err(f) => {
                        if let Some(k) = known.iter().find(|k| k.signature == f.signature) {
                            // known finding: excluded by construction, counted, search continues
                            if counting {
                                let mut g = res.lock().unwrap();
                                *g.known_hits.entry(k.signature.clone()).or_insert(0) += 1;
                                g.record(&case, &CaseInfo::new(false).class("known-finding-excluded"));
                            }
                            return Ok(());
                        }
                        if counting {
                            res.lock().unwrap().evaluations += 1;
                        }
                        failed.store(true, std::sync::atomic::Ordering::SeqCst);
                        Err(TestCaseError::fail(f.signature.clone()))
                    }
                }
            });
            let mut out = res.into_inner().unwrap();
            match outcome {
                Ok(()) => {}
                Err(TestError::Fail(_, minimal)) => {
                    // re-run the minimal case to get its Fail record
                    let f = match guarded(&*self.check, &minimal) {
                        Err(f) => f,
                        Ok(_) => Fail::new("flaky", "minimal case passed on re-execution (harness fault)"),
                    };
                    if f.inconclusive || f.signature == "flaky" {
                        out.inconclusive = Some(format!("{}: {}", f.signature, f.msg));
                    } else {
                        out.violation = Some(Violation {
                            property: property.to_string(),
                            subcheck: self.name.clone(),
                            case: serde_json::to_value(&minimal).unwrap_or(Value::Null),
                            fail: f,
                        });
                    }
                }
                Err(TestError::Abort(reason)) => {
                    out.inconclusive = Some(format!("proptest aborted: {}", reason));
                }
            }
            out.wall_s = t0.elapsed().as_secs_f64();
            out
        }

        fn replay(&self, _ctx: &Ctx, case: &Value) -> Result<CheckResult, String> {
            let c: C = serde_json::from_value(case.clone()).map_err(|e| format!("cannot decode case: {}", e))?;
            Ok(guarded(&*self.check, &c))
        }
    }

    /// enumerated sub-check: a finite list of cases, each through the same kind of pure
    /// check function (no shrinking: enumerated cases are already minimal)
    pub struct ESub<C> {
        pub name: String,
        pub cases: Box<dyn Fn() -> Vec<C> + Send + Sync>,
        pub check: Box<dyn Fn(&C) -> CheckResult + Send + Sync>,
        pub weight: u64,
    }

    impl<C> ESub<C>
    where
        C: Serialize + DeserializeOwned + std::fmt::Debug + Clone + Send + Sync + 'static,
    {
        pub fn boxed(
            name: impl Into<String>,
            weight: u64,
            cases: impl Fn() -> Vec<C> + Send + Sync + 'static,
            check: impl Fn(&C) -> CheckResult + Send + Sync + 'static,
        ) -> Box<dyn SubCheck> {
            Box::new(ESub { name: name.into(), cases: Box::new(cases), check: Box::new(check), weight })
        }
    }

    impl<C> SubCheck for ESub<C>
    where
        C: Serialize + DeserializeOwned + std::fmt::Debug + Clone + Send + Sync + 'static,
    {
        fn name(&self) -> String {
            self.name.clone()
        }
        fn weight(&self) -> u64 {
            self.weight
        }
        fn run(&self, ctx: &Ctx, property: &str) -> SubResult {
            let t0 = std::time::Instant::now();
            let mut out = SubResult::new(&self.name);
            let known: Vec<&KnownFinding> = ctx.known.iter().filter(|k| k.property == property).collect();
            for case in (self.cases)() {
                match guarded(&*self.check, &case) {
                    Ok(info) => out.record(&case, &info),
                    Err(f) => {
                        out.evaluations += 1;
                        if let Some(k) = known.iter().find(|k| k.signature == f.signature) {
                            *out.known_hits.entry(k.signature.clone()).or_insert(0) += 1;
                            continue;
                        }
                        if f.inconclusive {
                            out.inconclusive = Some(format!("{}: {}", f.signature, f.msg));
                        } else {
                            out.violation = Some(Violation {
                                property: property.to_string(),
                                subcheck: self.name.clone(),
                                case: serde_json::to_value(&case).unwrap_or(Value::Null),
                                fail: f,
                            });
                        }
                        break;
                    }
                }
            }
            out.extra.insert("enumerated".into(), json!(true));
            out.wall_s = t0.elapsed().as_secs_f64();
            out
        }
        fn replay(&self, _ctx: &Ctx, case: &Value) -> Result<CheckResult, String> {
            let c: C = serde_json::from_value(case.clone()).map_err(|e| format!("cannot decode case: {}", e))?;
            Ok(guarded(&*self.check, &c))
        }
    }

    /// Run all sub-checks of a property on all cores; deterministic merge order.
    pub fn run_all(ctx: &Ctx, property: &str, subs: Vec<Box<dyn SubCheck>>) -> Vec<SubResult> {
        use rayon::prelude::*;
        let mut order: Vec<usize> = (0..subs.len()).collect();
        order.sort_by_key(|&i| std::cmp::Reverse(subs[i].weight()));
        let mut results: Vec<(usize, SubResult)> = order
            .par_iter()
            .map(|&i| (i, subs[i].run(ctx, property)))
            .collect();
        results.sort_by_key(|(i, _)| *i);
        results.into_iter().map(|(_, r)| r).collect()
    }
}

/// Merge sub-results into the evidence JSON of one property.
#[allow(clippy::too_many_arguments)]
pub fn evidence_json(
    property: &str,
    ctx: &Ctx,
    rule: &str,
    explanation: Option<&str>,
    assumptions: &[String],
    results: &[SubResult],
    wall_s: f64,
    extra: BTreeMap<String, Value>,
) -> Value {
    let evaluations: u64 = results.iter().map(|r| r.evaluations).sum();
    let mut all: HashSet<u64> = HashSet::new();
    for r in results {
        all.extend(r.nontrivial_hashes.iter().copied());
    }
    let mut samples = Vec::new();
    for r in results {
        for s in r.samples.iter().take(1) {
            if samples.len() < 16 {
                samples.push(json!({"subcheck": r.name, "case": s}));
            }
        }
    }
    let mut per_sub = serde_json::Map::new();
    for r in results {
        let mut m = serde_json::Map::new();
        m.insert("evaluations".into(), json!(r.evaluations));
        m.insert("distinct_nontrivial".into(), json!(r.nontrivial_hashes.len()));
        m.insert("classes".into(), json!(r.classes));
        m.insert("wall_s".into(), json!((r.wall_s * 1000.0).round() / 1000.0));
        if !r.known_hits.is_empty() {
            m.insert("known_finding_cases_excluded".into(), json!(r.known_hits));
        }
        if let Some(i) = &r.inconclusive {
            m.insert("inconclusive".into(), json!(i));
        }
        for (k, v) in &r.extra {
            m.insert(k.clone(), v.clone());
        }
        per_sub.insert(r.name.clone(), Value::Object(m));
    }
    let violations = results.iter().filter(|r| r.violation.is_some()).count();
    let mut coverage = serde_json::Map::new();
    coverage.insert("evaluations".into(), json!(evaluations));
    coverage.insert("distinct_nontrivial".into(), json!(all.len()));
    coverage.insert("rule".into(), json!(rule));
    coverage.insert("samples".into(), Value::Array(samples));
    if let Some(e) = explanation {
        coverage.insert("explanation".into(), json!(e));
    }
    coverage.insert("subchecks".into(), Value::Object(per_sub));
    for (k, v) in extra {
        coverage.insert(k, v);
    }
    json!({
        "property_id": property,
        "tier": ctx.tier.name(),
        "seed": ctx.seed,
        "level": "exploration",
        "coverage": Value::Object(coverage),
        "assumptions": assumptions,
        "wall_s": (wall_s * 1000.0).round() / 1000.0,
        "violations": violations,
    })
}

pub fn load_known_findings(path: &std::path::Path) -> Vec<KnownFinding> {
    let mut out = Vec::new();
    if let Ok(text) = std::fs::read_to_string(path) {
        for line in text.lines() {
            let line = line.trim();
            // known: property=C14 signature="..." what...
            if let Some(rest) = line.strip_prefix("known:") {
                let rest = rest.trim();
                let prop = rest.split_whitespace().find_map(|t| t.strip_prefix("property=")).unwrap_or("").to_string();
                let sig = rest.find("signature=\"").and_then(|i| {
                    let s = &rest[i + 11..];
                    s.find('"').map(|j| s[..j].to_string())
                });
                if let Some(sig) = sig {
                    let what = rest.rsplit_once('"').map(|(_, w)| w.trim().to_string()).unwrap_or_default();
                    out.push(KnownFinding { property: prop, signature: sig, what });
                }
            }
        }
    }
    out
}
