//! Scripted timers for `JitterRng`: the harness owns every value the timer returns.
//!
//! A `Script` is a pure function index -> reading: the explicit readings first, then a
//! deterministic, strictly increasing, visibly jittering tail (so that no generated timer is
//! stuck forever — the only situation in which the crate is allowed not to return).

use serde::{Deserialize, Serialize};
use std::sync::atomic::{AtomicUsize, Ordering};
use std::sync::Arc;

#[derive(Clone, Debug, PartialEq, Eq, Serialize, Deserialize)]
pub struct Script {
    pub readings: Arc<Vec<u64>>,
    /// selects the tail's jitter sequence
    pub tail_salt: u64,
}

fn mix(mut z: u64) -> u64 {
    z = (z ^ (z >> 30)).wrapping_mul(0xbf58476d1ce4e5b9);
    z = (z ^ (z >> 27)).wrapping_mul(0x94d049bb133111eb);
    z ^ (z >> 31)
}

impl Script {
    pub fn new(readings: Vec<u64>, tail_salt: u64) -> Script {
        Script { readings: Arc::new(readings), tail_salt }
    }

    pub fn at(&self, i: usize) -> u64 {
        if i < self.readings.len() {
            self.readings[i]
        } else {
            let base = self.readings.last().copied().unwrap_or(1_000_000);
            let k = (i - self.readings.len()) as u64 + 1;
            // strictly increasing: step 1009 plus a bounded jitter that never overtakes the step
            base.wrapping_add(k.wrapping_mul(1009))
                .wrapping_add(mix(k ^ self.tail_salt.wrapping_mul(0x9e3779b97f4a7c15)) & 0x1ff)
        }
    }
}

/// Unwinding payload used when a timer is read more often than its budget allows (a stuck
/// script); distinguishes "harness stopped a non-returning call" from a crate panic.
#[derive(Debug)]
pub struct TimerBudget;

/// Unwinding payload of an injected timer fault: the timer closure panics once, at one chosen
/// reading (a timer is user code: it may fail), and works again afterwards.
#[derive(Debug)]
pub struct TimerFault;

struct Inner {
    script: Script,
    cursor: AtomicUsize,
    budget: usize,
    /// index of the reading at which the timer panics once (usize::MAX = never)
    fault_at: usize,
}

/// `Fn() -> u64 + Send + Sync + Clone`. Clones share the cursor (like a real clock).
#[derive(Clone)]
pub struct ScriptTimer(Arc<Inner>);

impl ScriptTimer {
    pub fn new(script: Script, budget: usize) -> ScriptTimer {
        ScriptTimer(Arc::new(Inner { script, cursor: AtomicUsize::new(0), budget, fault_at: usize::MAX }))
    }
    pub fn with_fault(script: Script, budget: usize, fault_at: usize) -> ScriptTimer {
        ScriptTimer(Arc::new(Inner { script, cursor: AtomicUsize::new(0), budget, fault_at }))
    }
    pub fn reads(&self) -> usize {
        self.0.cursor.load(Ordering::SeqCst)
    }
    pub fn read(&self) -> u64 {
        let i = self.0.cursor.fetch_add(1, Ordering::SeqCst);
        if i >= self.0.budget {
            std::panic::panic_any(TimerBudget);
        }
        if i == self.0.fault_at {
            std::panic::panic_any(TimerFault);
        }
        self.0.script.at(i)
    }
    /// the closure handed to `JitterRng::new_with_timer`
    pub fn closure(&self) -> impl Fn() -> u64 + Send + Sync + Clone + 'static {
        let t = self.clone();
        move || t.read()
    }
}
