//! Oracle self-test: at the start of every run the reference models must reproduce the golden
//! vectors (published vectors quoted by the crates' tests at the pinned commit + vectors from
//! the independent Python models in tools/pyref.py). A failure here is a harness fault
//! (exit 2), never a violation.

use crate::adapter::Ty;
use crate::refmodel::isaac::{Isaac, Isaac64};
use crate::refmodel::jitter;
use crate::refmodel::misc::pcg32_expand;
use crate::refmodel::stream::WordModel;
use crate::refmodel::vigna;
use crate::timer::Script;
use serde_json::Value;

const VECTORS: &str = include_str!("../../golden/vectors.json");

fn unhex(s: &str) -> Vec<u8> {
    (0..s.len() / 2).map(|i| u8::from_str_radix(&s[2 * i..2 * i + 2], 16).unwrap()).collect()
}

fn nums(v: &Value) -> Vec<u64> {
    v.as_array().unwrap().iter().map(|x| x.as_str().unwrap().parse::<u64>().unwrap()).collect()
}

pub fn self_test() -> Result<usize, String> {
    let v: Value = serde_json::from_str(VECTORS).map_err(|e| e.to_string())?;
    let mut n = 0;
    for group in ["published", "pyref"] {
        for e in v[group].as_array().unwrap() {
            let ty = e["ty"].as_str().unwrap();
            let seed = unhex(e["seed"].as_str().unwrap());
            let got: Vec<u64>;
            let want: Vec<u64>;
            if ty == "pcg32/32" {
                let x = u64::from_le_bytes(seed.clone().try_into().unwrap());
                let w = unhex(e["native"][0].as_str().unwrap());
                if pcg32_expand(x, 32) != w {
                    return Err(format!("pcg32 expansion of {} differs from golden", x));
                }
                n += 1;
                continue;
            }
            want = nums(&e["native"]);
            match ty {
                "SplitMix64/u32" => {
                    let mut m = vigna::Model::from_seed(Ty::SplitMix64, &seed);
                    got = want.iter().map(|_| m.splitmix_next_u32() as u64).collect();
                }
                "IsaacRng/u64" => {
                    let x = u64::from_le_bytes(seed.clone().try_into().unwrap());
                    let mut m = WordModel::seed_from_u64(Ty::Isaac, x);
                    got = want.iter().map(|_| m.next()).collect();
                }
                "Isaac64Rng/u64" => {
                    let x = u64::from_le_bytes(seed.clone().try_into().unwrap());
                    let mut m = WordModel::seed_from_u64(Ty::Isaac64, x);
                    got = want.iter().map(|_| m.next()).collect();
                }
                "IsaacRng/unseeded" => {
                    let mut m = Isaac::new(&[], 0);
                    got = want.iter().map(|_| m.next() as u64).collect();
                }
                "Isaac64Rng/unseeded" => {
                    let mut m = Isaac64::new(&[], 0);
                    got = want.iter().map(|_| m.next()).collect();
                }
                _ => {
                    let t = Ty::from_name(ty).ok_or(format!("golden: unknown type {}", ty))?;
                    let mut m = WordModel::from_seed_raw(t, &seed);
                    got = want.iter().map(|_| m.next()).collect();
                }
            }
            if got != want {
                let k = got.iter().zip(want.iter()).position(|(a, b)| a != b).unwrap_or(0);
                return Err(format!("model {} ({}) differs from golden vector at word {}: {:#x} vs {:#x}", ty, group, k, got[k], want[k]));
            }
            n += 1;
        }
    }
    for e in v["jitter"].as_array().unwrap() {
        let script = Script::new(nums(&e["script"]), 0);
        let mut m = jitter::Model::new(script);
        m.set_rounds(e["rounds"].as_u64().unwrap() as u8);
        let b = usize::MAX;
        let outs = vec![
            m.next_u64(b).unwrap(),
            m.next_u32(b).unwrap() as u64,
            m.next_u32(b).unwrap() as u64,
            m.next_u64(b).unwrap(),
        ];
        if outs != nums(&e["outs"]) || m.reads as u64 != e["reads"].as_u64().unwrap() {
            return Err("jitter model differs from the golden (Python) model".into());
        }
        n += 1;
    }
    Ok(n)
}
