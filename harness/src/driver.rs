//! Runs a property definition: all sub-checks in parallel, evidence file, violation replay
//! files, KNOWN-FINDING lines, exit code.

use crate::engine::{self, evidence_json, Ctx, SubResult, Violation};
use crate::props::PropDef;
use serde_json::{json, Value};
use std::collections::BTreeMap;
use std::path::Path;

pub fn run(ctx: &Ctx, def: PropDef) -> i32 {
    let t0 = std::time::Instant::now();
    let id = def.id;
    // VERIF_ONLY=<prefix>: debugging aid, run only the sub-checks whose name starts with it
    let subs = match std::env::var("VERIF_ONLY") {
        Ok(p) if !p.is_empty() => def.subs.into_iter().filter(|s| s.name().starts_with(&p)).collect(),
        _ => def.subs,
    };
    // regression tier: saved minimal failing inputs (found while running the checks against
    // seeded changes) are replayed first through the same oracles, without proptest
    let (reg_n, reg_skipped, reg_violation) = replay_regress(ctx, id, &subs);
    let mut results: Vec<SubResult> = engine::run_all(ctx, id, subs);
    if let Some(v) = reg_violation {
        let mut r = SubResult::new("regress");
        r.evaluations = reg_n;
        r.violation = Some(v);
        results.push(r);
    }
    let wall = t0.elapsed().as_secs_f64();

    // known findings: print one line per listed finding of this property
    let mut known_counts: BTreeMap<String, u64> = BTreeMap::new();
    for r in &results {
        for (k, v) in &r.known_hits {
            *known_counts.entry(k.clone()).or_insert(0) += v;
        }
    }
    for k in ctx.known.iter().filter(|k| k.property == id) {
        println!(
            "KNOWN-FINDING: property={} {} (signature \"{}\"; {} generated cases hit it and were excluded)",
            id,
            k.what,
            k.signature,
            known_counts.get(&k.signature).copied().unwrap_or(0)
        );
    }

    let mut extra = BTreeMap::new();
    extra.insert("regression_cases_replayed".to_string(), json!(reg_n));
    if reg_skipped > 0 {
        extra.insert("regression_cases_skipped_unknown_subcheck".to_string(), json!(reg_skipped));
    }
    if !known_counts.is_empty() {
        extra.insert("known_finding_cases_excluded".to_string(), json!(known_counts));
    }
    let ev = evidence_json(id, ctx, &def.rule, def.explanation.as_deref(), &def.assumptions, &results, wall, extra);
    let ev_dir = ctx.verif_dir.join("evidence");
    let _ = std::fs::create_dir_all(&ev_dir);
    if let Err(e) = std::fs::write(ev_dir.join(format!("{}.json", id)), serde_json::to_string_pretty(&ev).unwrap()) {
        println!("INCONCLUSIVE: cannot write evidence: {}", e);
        return 2;
    }

    let mut code = 0;
    let vdir = ctx.verif_dir.join("out").join("violations");
    for r in &results {
        if let Some(v) = &r.violation {
            let _ = std::fs::create_dir_all(&vdir);
            let body = serde_json::to_string_pretty(v).unwrap();
            let path = vdir.join(format!("{}-{:016x}.json", id, engine::fnv64(body.as_bytes())));
            let _ = std::fs::write(&path, body);
            println!("VIOLATION property={} replay={}", id, path.display());
            println!("  subcheck={} signature={}", v.subcheck, v.fail.signature);
            println!("  {}", v.fail.msg);
            if !v.fail.expected.is_empty() {
                println!("  expected={} actual={}", v.fail.expected, v.fail.actual);
            }
            code = 1;
        }
    }
    if code == 0 {
        for r in &results {
            if let Some(i) = &r.inconclusive {
                println!("INCONCLUSIVE: {}: {}", r.name, i);
                code = 2;
            }
        }
    }
    let evals: u64 = results.iter().map(|r| r.evaluations).sum();
    println!(
        "{} {} seed={} subchecks={} evaluations={} distinct_nontrivial={} wall={:.1}s -> {}",
        id,
        ctx.tier.name(),
        ctx.seed,
        results.len(),
        evals,
        ev["coverage"]["distinct_nontrivial"],
        wall,
        match code {
            0 => "OK",
            1 => "VIOLATION",
            _ => "INCONCLUSIVE",
        }
    );
    code
}

/// replay replays/regress/<id>/*.json; returns (replayed, skipped, first violation)
fn replay_regress(ctx: &Ctx, id: &str, subs: &[Box<dyn engine::SubCheck>]) -> (u64, u64, Option<Violation>) {
    let dir = ctx.verif_dir.join("replays").join("regress").join(id);
    let mut files: Vec<std::path::PathBuf> = match std::fs::read_dir(&dir) {
        Ok(rd) => rd.flatten().map(|e| e.path()).filter(|p| p.extension().map(|x| x == "json").unwrap_or(false)).collect(),
        Err(_) => return (0, 0, None),
    };
    files.sort();
    let family = |s: &str| -> String {
        match s.rsplit_once('/') {
            Some((a, b)) if b.chars().all(|c| c.is_ascii_digit()) => a.to_string(),
            _ => s.to_string(),
        }
    };
    std::env::set_var("VERIF_REGRESS", "1");
    let (mut n, mut skipped) = (0u64, 0u64);
    let mut first = None;
    for f in files {
        let Ok(text) = std::fs::read_to_string(&f) else { continue };
        let Ok(raw) = serde_json::from_str::<Value>(&text) else { continue };
        let name = raw["subcheck"].as_str().unwrap_or("");
        let sub = subs.iter().find(|s| s.name() == name).or_else(|| subs.iter().find(|s| family(&s.name()) == family(name)));
        let Some(sub) = sub else {
            skipped += 1;
            continue;
        };
        match sub.replay(ctx, &raw["case"]) {
            Ok(Ok(_)) => n += 1,
            Ok(Err(fail)) if !fail.inconclusive => {
                n += 1;
                if first.is_none() {
                    // the regression file itself is the replay file
                    println!("VIOLATION property={} replay={}", id, f.display());
                    println!("  subcheck={} signature={} (regression case)", sub.name(), fail.signature);
                    println!("  {}", fail.msg);
                    first = Some(Violation { property: id.to_string(), subcheck: sub.name(), case: raw["case"].clone(), fail });
                }
            }
            _ => skipped += 1,
        }
    }
    std::env::remove_var("VERIF_REGRESS");
    (n, skipped, first)
}

pub fn replay(ctx: &Ctx, def: PropDef, path: &Path) -> i32 {
    let text = match std::fs::read_to_string(path) {
        Ok(t) => t,
        Err(e) => {
            println!("INCONCLUSIVE: cannot read replay file: {}", e);
            return 2;
        }
    };
    let v: Violation = match serde_json::from_str::<Violation>(&text) {
        Ok(v) => v,
        Err(_) => {
            // accept a bare {"subcheck":..., "case":...}
            let raw: Value = match serde_json::from_str(&text) {
                Ok(r) => r,
                Err(e) => {
                    println!("INCONCLUSIVE: bad replay file: {}", e);
                    return 2;
                }
            };
            Violation {
                property: def.id.to_string(),
                subcheck: raw["subcheck"].as_str().unwrap_or("").to_string(),
                case: raw["case"].clone(),
                fail: engine::Fail::new("", ""),
            }
        }
    };
    let sub = def.subs.iter().find(|s| s.name() == v.subcheck);
    let sub = match sub {
        Some(s) => s,
        None => {
            println!("INCONCLUSIVE: sub-check {} not found in {}", v.subcheck, def.id);
            return 2;
        }
    };
    match sub.replay(ctx, &v.case) {
        Err(e) => {
            println!("INCONCLUSIVE: {}", e);
            2
        }
        Ok(Ok(_)) => {
            println!("replay: case passes (property holds on this input)");
            0
        }
        Ok(Err(f)) if f.inconclusive => {
            println!("INCONCLUSIVE: {}", f.msg);
            2
        }
        Ok(Err(f)) => {
            println!("VIOLATION property={} replay={}", def.id, path.display());
            println!("  subcheck={} signature={}", v.subcheck, f.signature);
            println!("  {}", f.msg);
            if !f.expected.is_empty() {
                println!("  expected={} actual={}", f.expected, f.actual);
            }
            1
        }
    }
}
