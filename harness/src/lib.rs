//! Verification harness for rust-random/rngs: property-based testing and fuzzing of the 19
//! listed properties (see /verif/DESIGN.md).
pub mod adapter;
pub mod engine;
pub mod gf2;
pub mod golden;
pub mod hexser;
pub mod linear;
pub mod ops;
pub mod refmodel;
pub mod src;
pub mod timer;

#[cfg(feature = "pbt")]
pub mod driver;
#[cfg(feature = "pbt")]
pub mod fuzzdec;
#[cfg(feature = "pbt")]
pub mod gens;
#[cfg(feature = "pbt")]
pub mod props;
