//! vdigest <corpus-file> [--trace]
//!
//! Corpus lines (space separated):
//!   D <Type> S <seedhex> | <ops>       deterministic generator, from_seed
//!   D <Type> U <u64>     | <ops>       deterministic generator, seed_from_u64
//!   K <Core> <seedhex> <blocks>        public block core through BlockRngCore::generate
//!   J <rounds> <salt> <r0,r1,...> | <ops>   JitterRng over a scripted timer (readings as hex)
//! ops: a = next_u32, b = next_u64, f<n> = fill_bytes(n), j = jump, l = long_jump,
//!      c = continue on a clone; R<k>:<n> = k fills of n bytes; JitterRng also: s0/s1 = timer_stats(false/true),
//!      r<n> = set_rounds(n), t = test_timer
//! Output: one line per case: "<index> <digest>" (FNV-1a over every returned value) or
//! "<index> PANIC <message>"; with --trace every returned value is printed as well.

use rand_core::block::BlockRngCore;
use rand_core::{RngCore, SeedableRng};
use std::sync::atomic::{AtomicUsize, Ordering};
use std::sync::Arc;

struct Dig {
    h: u64,
    trace: Option<Vec<String>>,
}
impl Dig {
    fn bytes(&mut self, b: &[u8]) {
        for x in b {
            self.h ^= *x as u64;
            self.h = self.h.wrapping_mul(0x100000001b3);
        }
        self.h ^= 0xff;
        self.h = self.h.wrapping_mul(0x100000001b3);
    }
    fn val(&mut self, tag: &str, b: &[u8]) {
        self.bytes(b);
        if let Some(t) = &mut self.trace {
            let hex: String = b.iter().take(40).map(|x| format!("{:02x}", x)).collect();
            t.push(format!("{}:{}{}", tag, hex, if b.len() > 40 { "…" } else { "" }));
        }
    }
}

fn unhex(s: &str) -> Vec<u8> {
    (0..s.len() / 2).map(|i| u8::from_str_radix(&s[2 * i..2 * i + 2], 16).unwrap()).collect()
}

trait G {
    fn op(&mut self, op: &str, d: &mut Dig);
}

macro_rules! plain {
    ($T:ty, jump: $j:tt) => {
        impl G for $T {
            fn op(&mut self, op: &str, d: &mut Dig) {
                match op.as_bytes()[0] {
                    b'a' => d.val("a", &self.next_u32().to_le_bytes()),
                    b'b' => d.val("b", &self.next_u64().to_le_bytes()),
                    b'f' => {
                        // destination at a varying offset from an 8-byte boundary
                        let n: usize = op[1..].parse().unwrap();
                        let off = (n / 3 + n) % 8;
                        let mut backing = vec![0u8; n + 16];
                        let base = backing.as_ptr() as usize;
                        let start = (8 - base % 8) % 8 + off;
                        self.fill_bytes(&mut backing[start..start + n]);
                        d.val("f", &backing[start..start + n]);
                    }
                    b'R' => {
                        // R<k>:<n> = k fills of n bytes (long runs past counter-width boundaries)
                        let (k, n) = op[1..].split_once(':').unwrap();
                        let (k, n): (usize, usize) = (k.parse().unwrap(), n.parse().unwrap());
                        let mut buf = vec![0u8; n];
                        for _ in 0..k {
                            self.fill_bytes(&mut buf);
                            d.bytes(&buf);
                        }
                        d.val("R", &buf[..n.min(32)]);
                    }
                    b'c' => *self = self.clone(),
                    b'j' => plain!(@jump $j self jump),
                    b'l' => plain!(@jump $j self long_jump),
                    _ => {}
                }
            }
        }
    };
    (@jump yes $s:ident $m:ident) => { $s.$m() };
    (@jump no $s:ident $m:ident) => { {} };
}

plain!(rand_xoshiro::SplitMix64, jump: no);
plain!(rand_xoshiro::Xoroshiro64Star, jump: no);
plain!(rand_xoshiro::Xoroshiro64StarStar, jump: no);
plain!(rand_xoshiro::Xoroshiro128Plus, jump: yes);
plain!(rand_xoshiro::Xoroshiro128PlusPlus, jump: yes);
plain!(rand_xoshiro::Xoroshiro128StarStar, jump: yes);
plain!(rand_xoshiro::Xoshiro128Plus, jump: yes);
plain!(rand_xoshiro::Xoshiro128PlusPlus, jump: yes);
plain!(rand_xoshiro::Xoshiro128StarStar, jump: yes);
plain!(rand_xoshiro::Xoshiro256Plus, jump: yes);
plain!(rand_xoshiro::Xoshiro256PlusPlus, jump: yes);
plain!(rand_xoshiro::Xoshiro256StarStar, jump: yes);
plain!(rand_xoshiro::Xoshiro512Plus, jump: yes);
plain!(rand_xoshiro::Xoshiro512PlusPlus, jump: yes);
plain!(rand_xoshiro::Xoshiro512StarStar, jump: yes);
plain!(rand_xorshift::XorShiftRng, jump: no);
plain!(rand_hc::Hc128Rng, jump: no);
plain!(rand_isaac::IsaacRng, jump: no);
plain!(rand_isaac::Isaac64Rng, jump: no);

fn mk<T: SeedableRng + G + 'static>(ctor: &str, arg: &str) -> Box<dyn G> {
    if ctor == "U" {
        Box::new(T::seed_from_u64(arg.parse().unwrap()))
    } else {
        let mut s = T::Seed::default();
        s.as_mut().copy_from_slice(&unhex(arg));
        Box::new(T::from_seed(s))
    }
}

fn build(ty: &str, ctor: &str, arg: &str) -> Box<dyn G> {
    match ty {
        "SplitMix64" => mk::<rand_xoshiro::SplitMix64>(ctor, arg),
        "Xoroshiro64Star" => mk::<rand_xoshiro::Xoroshiro64Star>(ctor, arg),
        "Xoroshiro64StarStar" => mk::<rand_xoshiro::Xoroshiro64StarStar>(ctor, arg),
        "Xoroshiro128Plus" => mk::<rand_xoshiro::Xoroshiro128Plus>(ctor, arg),
        "Xoroshiro128PlusPlus" => mk::<rand_xoshiro::Xoroshiro128PlusPlus>(ctor, arg),
        "Xoroshiro128StarStar" => mk::<rand_xoshiro::Xoroshiro128StarStar>(ctor, arg),
        "Xoshiro128Plus" => mk::<rand_xoshiro::Xoshiro128Plus>(ctor, arg),
        "Xoshiro128PlusPlus" => mk::<rand_xoshiro::Xoshiro128PlusPlus>(ctor, arg),
        "Xoshiro128StarStar" => mk::<rand_xoshiro::Xoshiro128StarStar>(ctor, arg),
        "Xoshiro256Plus" => mk::<rand_xoshiro::Xoshiro256Plus>(ctor, arg),
        "Xoshiro256PlusPlus" => mk::<rand_xoshiro::Xoshiro256PlusPlus>(ctor, arg),
        "Xoshiro256StarStar" => mk::<rand_xoshiro::Xoshiro256StarStar>(ctor, arg),
        "Xoshiro512Plus" => mk::<rand_xoshiro::Xoshiro512Plus>(ctor, arg),
        "Xoshiro512PlusPlus" => mk::<rand_xoshiro::Xoshiro512PlusPlus>(ctor, arg),
        "Xoshiro512StarStar" => mk::<rand_xoshiro::Xoshiro512StarStar>(ctor, arg),
        "XorShiftRng" => mk::<rand_xorshift::XorShiftRng>(ctor, arg),
        "Hc128Rng" => mk::<rand_hc::Hc128Rng>(ctor, arg),
        "IsaacRng" => mk::<rand_isaac::IsaacRng>(ctor, arg),
        "Isaac64Rng" => mk::<rand_isaac::Isaac64Rng>(ctor, arg),
        _ => panic!("vdigest: unknown type {}", ty),
    }
}

fn core_case<C: BlockRngCore + SeedableRng>(seed: &[u8], blocks: usize, d: &mut Dig)
where
    C::Item: Into<u64> + Copy,
{
    let mut s = C::Seed::default();
    s.as_mut().copy_from_slice(seed);
    let mut c = C::from_seed(s);
    let mut r = C::Results::default();
    for _ in 0..blocks {
        c.generate(&mut r);
        let mut bytes = Vec::new();
        for w in r.as_ref() {
            let v: u64 = (*w).into();
            bytes.extend_from_slice(&v.to_le_bytes());
        }
        d.val("k", &bytes);
    }
}

fn mix(mut z: u64) -> u64 {
    z = (z ^ (z >> 30)).wrapping_mul(0xbf58476d1ce4e5b9);
    z = (z ^ (z >> 27)).wrapping_mul(0x94d049bb133111eb);
    z ^ (z >> 31)
}

struct TimerBudget;

fn jitter_case(rounds: u8, salt: u64, readings: Vec<u64>, ops: &[&str], d: &mut Dig) {
    let readings = Arc::new(readings);
    let cur = Arc::new(AtomicUsize::new(0));
    let (r2, c2) = (readings.clone(), cur.clone());
    let timer = move || {
        let i = c2.fetch_add(1, Ordering::SeqCst);
        if i > 3_000_000 {
            std::panic::panic_any(TimerBudget);
        }
        if i < r2.len() {
            r2[i]
        } else {
            let base = r2.last().copied().unwrap_or(1_000_000);
            let k = (i - r2.len()) as u64 + 1;
            base.wrapping_add(k.wrapping_mul(1009)).wrapping_add(mix(k ^ salt.wrapping_mul(0x9e3779b97f4a7c15)) & 0x1ff)
        }
    };
    let mut g = rand_jitter::JitterRng::new_with_timer(timer);
    g.set_rounds(rounds.max(1));
    for op in ops {
        match op.as_bytes()[0] {
            b'a' => d.val("a", &g.next_u32().to_le_bytes()),
            b'b' => d.val("b", &g.next_u64().to_le_bytes()),
            b'f' => {
                let n: usize = op[1..].parse().unwrap();
                let mut buf = vec![0u8; n];
                g.fill_bytes(&mut buf);
                d.val("f", &buf);
            }
            b'c' => g = g.clone(),
            b's' => d.val("s", &g.timer_stats(&op[1..] == "1").to_le_bytes()),
            b'r' => g.set_rounds(op[1..].parse::<u8>().unwrap().max(1)),
            b't' => match g.test_timer() {
                Ok(r) => d.val("t", &[1, r]),
                Err(e) => d.val("t", format!("{}", e).as_bytes()),
            },
            _ => {}
        }
        d.val("r", &(cur.load(Ordering::SeqCst) as u64).to_le_bytes());
    }
}

fn run_line(line: &str, d: &mut Dig) {
    let (head, ops) = match line.split_once('|') {
        Some((h, o)) => (h, o),
        None => (line, ""),
    };
    let h: Vec<&str> = head.split_whitespace().collect();
    let ops: Vec<&str> = ops.split_whitespace().collect();
    match h[0] {
        "D" => {
            let mut g = build(h[1], h[2], h[3]);
            for op in &ops {
                g.op(op, d);
            }
        }
        "K" => {
            let seed = unhex(h[2]);
            let blocks: usize = h[3].parse().unwrap();
            match h[1] {
                "Hc128Core" => core_case::<rand_hc::Hc128Core>(&seed, blocks, d),
                "IsaacCore" => core_case::<rand_isaac::isaac::IsaacCore>(&seed, blocks, d),
                "Isaac64Core" => core_case::<rand_isaac::isaac64::Isaac64Core>(&seed, blocks, d),
                _ => panic!("vdigest: unknown core"),
            }
        }
        "J" => {
            let rounds: u8 = h[1].parse().unwrap();
            let salt: u64 = h[2].parse().unwrap();
            let readings: Vec<u64> = if h.len() > 3 { h[3].split(',').filter(|s| !s.is_empty()).map(|s| u64::from_str_radix(s, 16).unwrap()).collect() } else { Vec::new() };
            jitter_case(rounds, salt, readings, &ops, d);
        }
        _ => panic!("vdigest: bad line"),
    }
}

fn main() {
    let args: Vec<String> = std::env::args().collect();
    let trace = args.iter().any(|a| a == "--trace");
    let text = std::fs::read_to_string(&args[1]).expect("corpus file");
    std::panic::set_hook(Box::new(|_| {}));
    // features-on builds: an application that uses rand_jitter's `log` feature may run with any
    // log level; the most verbose one makes every log statement evaluate its arguments
    #[cfg(feature = "serde")]
    log::set_max_level(log::LevelFilter::Trace);
    let mut out = String::new();
    for (i, line) in text.lines().enumerate() {
        if line.trim().is_empty() || line.starts_with('#') {
            continue;
        }
        let mut d = Dig { h: 0xcbf29ce484222325, trace: if trace { Some(Vec::new()) } else { None } };
        let r = std::panic::catch_unwind(std::panic::AssertUnwindSafe(|| run_line(line, &mut d)));
        match r {
            Ok(()) => out.push_str(&format!("{} {:016x}", i, d.h)),
            Err(p) => {
                let msg = if let Some(s) = p.downcast_ref::<&str>() {
                    s.to_string()
                } else if let Some(s) = p.downcast_ref::<String>() {
                    s.clone()
                } else if p.downcast_ref::<TimerBudget>().is_some() {
                    "timer-budget".to_string()
                } else {
                    "?".to_string()
                };
                out.push_str(&format!("{} PANIC {}", i, msg));
            }
        }
        if let Some(t) = &d.trace {
            out.push_str(&format!(" [{}]", t.join(" ")));
        }
        out.push('\n');
    }
    print!("{}", out);
}
