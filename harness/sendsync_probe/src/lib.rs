//! Static part of C19: all generator types are Send and Sync (JitterRng where its timer is).
fn both<T: Send + Sync>() {}

pub fn probe() {
    both::<rand_xoshiro::SplitMix64>();
    both::<rand_xoshiro::Xoroshiro64Star>();
    both::<rand_xoshiro::Xoroshiro64StarStar>();
    both::<rand_xoshiro::Xoroshiro128Plus>();
    both::<rand_xoshiro::Xoroshiro128PlusPlus>();
    both::<rand_xoshiro::Xoroshiro128StarStar>();
    both::<rand_xoshiro::Xoshiro128Plus>();
    both::<rand_xoshiro::Xoshiro128PlusPlus>();
    both::<rand_xoshiro::Xoshiro128StarStar>();
    both::<rand_xoshiro::Xoshiro256Plus>();
    both::<rand_xoshiro::Xoshiro256PlusPlus>();
    both::<rand_xoshiro::Xoshiro256StarStar>();
    both::<rand_xoshiro::Xoshiro512Plus>();
    both::<rand_xoshiro::Xoshiro512PlusPlus>();
    both::<rand_xoshiro::Xoshiro512StarStar>();
    both::<rand_xoshiro::Seed512>();
    both::<rand_xorshift::XorShiftRng>();
    both::<rand_hc::Hc128Rng>();
    both::<rand_hc::Hc128Core>();
    both::<rand_isaac::IsaacRng>();
    both::<rand_isaac::Isaac64Rng>();
    both::<rand_isaac::isaac::IsaacCore>();
    both::<rand_isaac::isaac64::Isaac64Core>();
    both::<rand_jitter::JitterRng<fn() -> u64>>();
    both::<rand_jitter::TimerError>();
}

/// the generator returned by `JitterRng::new()` is Send + Sync as its signature promises
pub fn probe_new() -> Option<impl Send + Sync> {
    rand_jitter::JitterRng::new().ok()
}
